package plainchecks

import (
	"fmt"
	"os"
	"os/exec"
	"reflect"
	"strings"

	"github.com/cloudwego/frugal"
	"github.com/cloudwego/frugal/debug"
	"github.com/cloudwego/frugal/zverif/explore"
	"github.com/cloudwego/frugal/zverif/harness"
	"github.com/cloudwego/frugal/zverif/universe"
)

var c17Depth = []string{"", "2", "3", "64", "0x10"}
var c17IL = []string{"", "257", "50000", "1000000"}

type c17Bad struct {
	A uint32 `frugal:"1,default,i32"`
}

// legacy calls: each returns "" or a description of a misbehaviour
var c17Calls = []struct {
	name string
	run  func() string
}{
	{"none", func() string { return "" }},
	{"Pretouch(valid)", func() string { return pretouch(reflect.TypeOf(universe.Named{})) }},
	{"Pretouch(pointer type)", func() string { return pretouch(reflect.TypeOf(&universe.Named{})) }},
	{"Pretouch(invalid struct)", func() string { return pretouch(reflect.TypeOf(c17Bad{})) }},
	{"Pretouch(nil)", func() string { return pretouch(nil) }},
	{"Pretouch(non-struct)", func() string { return pretouch(reflect.TypeOf(42)) }},
	{"Pretouch(valid, all options)", func() string {
		return pretouch(reflect.TypeOf(universe.R{}), frugal.WithMaxInlineDepth(1), frugal.WithMaxInlineILSize(1), frugal.WithMaxPretouchDepth(0), frugal.WithMaxInlineDepth(-5), frugal.WithMaxPretouchDepth(1<<30))
	}},
	{"Pretouch(all generated nested types)", func() string {
		for _, p := range universe.GraphPairs {
			for _, rt := range []reflect.Type{p.A, p.B} {
				if b := pretouch(rt); b != "" {
					return b
				}
				if b := pretouch(reflect.New(rt).Interface()); b != "" {
					return b
				}
			}
		}
		return ""
	}},
	{"Pretouch(deep chain, WithMaxPretouchDepth(1))", func() string { return pretouch(reflect.TypeOf(universe.Deep1{}), frugal.WithMaxPretouchDepth(1)) }},
	{"Pretouch(deep chain, WithMaxPretouchDepth(2))", func() string { return pretouch(reflect.TypeOf(universe.Deep1{}), frugal.WithMaxPretouchDepth(2)) }},
	{"Pretouch(deep chain, WithMaxPretouchDepth(3))", func() string { return pretouch(reflect.TypeOf(&universe.Deep1{}), frugal.WithMaxPretouchDepth(3)) }},
	{"Pretouch(deep chain, WithMaxInlineDepth(2))", func() string { return pretouch(reflect.TypeOf(universe.Deep1{}), frugal.WithMaxInlineDepth(2)) }},
	{"Pretouch(deep chain, WithMaxInlineILSize(1))", func() string { return pretouch(reflect.TypeOf(universe.Deep1{}), frugal.WithMaxInlineILSize(1)) }},
	{"NoJIT(true)", func() string { frugal.NoJIT(true); return "" }},
	{"NoJIT(false)", func() string { frugal.NoJIT(false); return "" }},
	{"SetMaxInlineDepth", func() string {
		for _, x := range []int{0, 1, -1, 2, 1 << 40, -1 << 40} {
			if got := frugal.SetMaxInlineDepth(x); got != x {
				return fmt.Sprintf("SetMaxInlineDepth(%d) returns %d", x, got)
			}
		}
		return ""
	}},
	{"SetMaxInlineILSize", func() string {
		for _, x := range []int{0, 1, -1, 256, 257, 1 << 40} {
			if got := frugal.SetMaxInlineILSize(x); got != x {
				return fmt.Sprintf("SetMaxInlineILSize(%d) returns %d", x, got)
			}
		}
		return ""
	}},
	{"debug.GetStats", func() string {
		if s := debug.GetStats(); s != (debug.Stats{}) {
			return fmt.Sprintf("GetStats() = %+v, want the zero value", s)
		}
		return ""
	}},
}

func pretouch(t interface{}, o ...frugal.Option) (bad string) {
	defer func() {
		if p := recover(); p != nil {
			bad = fmt.Sprintf("Pretouch panics: %v", p)
		}
	}()
	var arg interface{} = t
	if rt, ok := t.(reflect.Type); ok && rt == nil {
		arg = nil
	}
	if rt, ok := t.(reflect.Type); ok && rt != nil {
		// frugal.Pretouch takes a value or a reflect.Type (historically the latter): try both forms
		if err := frugal.Pretouch(reflect.New(rt).Elem().Interface(), o...); err != nil {
			return fmt.Sprintf("Pretouch returns an error: %v", err)
		}
	}
	if err := frugal.Pretouch(arg, o...); err != nil {
		return fmt.Sprintf("Pretouch returns an error: %v", err)
	}
	// the type itself too, not only its reflect.Type
	if err := frugal.Pretouch(nil, o...); err != nil {
		return fmt.Sprintf("Pretouch(nil) returns an error: %v", err)
	}
	return ""
}

var c17Places = []string{"before-first-use", "between-codec-calls", "after"}

// C17Child runs in a child process: args = call index, placement index; prints "digest <d>" or "BAD <why>".
func C17Child(args []string) {
	var ci, pi int
	fmt.Sscan(args[0], &ci)
	fmt.Sscan(args[1], &pi)
	call := c17Calls[ci]
	bad := ""
	run := func() {
		if b := call.run(); b != "" && bad == "" {
			bad = b
		}
	}
	if pi == 0 {
		run()
	}
	var between func()
	if pi == 1 {
		between = run
	}
	d1, dis := Battery(between)
	if pi == 2 {
		run()
	}
	// the battery again after all legacy calls: still the same
	d2, dis2 := Battery(nil)
	switch {
	case bad != "":
		fmt.Println("BAD", bad)
	case dis != "" || dis2 != "":
		fmt.Println("BAD results differ from the reference model:", dis, dis2)
	case d1 != d2:
		fmt.Println("BAD the battery digest changed within the process:", d1, d2)
	default:
		fmt.Println("digest", d1)
	}
}

var c17Ref string

func c17Spawn(depth, il string, ci, pi int) (string, error) {
	self, _ := os.Executable()
	cmd := exec.Command(self, "--c17-child", fmt.Sprint(ci), fmt.Sprint(pi))
	env := []string{}
	for _, e := range os.Environ() {
		if !strings.HasPrefix(e, "FRUGAL_MAX_INLINE") {
			env = append(env, e)
		}
	}
	if depth != "" {
		env = append(env, "FRUGAL_MAX_INLINE_DEPTH="+depth)
	}
	if il != "" {
		env = append(env, "FRUGAL_MAX_INLINE_IL_SIZE="+il)
	}
	cmd.Env = env
	out, err := cmd.CombinedOutput()
	return strings.TrimSpace(string(out)), err
}

func init() {
	harness.Register(&harness.Check{
		ID:          "C17",
		Level:       "model_checking",
		Explanation: "Bounded exhaustive enumeration (E1) of configurations on the UNMODIFIED build: 5 x 4 valid settings of the two FRUGAL_MAX_INLINE_* environment variables x 18 legacy calls (Pretouch on valid / pointer / invalid / nil / non-struct types with every option constructor, NoJIT, the SetMaxInline setters, debug.GetStats) x 3 placements (before first use, between two codec calls, after), each in its own child process running a fixed codec battery (a sample of the C01-C04 type space: sizes, canonical encodings, decoded values). The battery digest must be identical in every configuration and equal the digest of the plain configuration, whose results must equal the reference model; Pretouch never fails, the setters return their argument, GetStats is zero.",
		Assumptions: []string{"go1.23.5 toolchain", "the battery is a sample of the type space (about 90 types); the property's quantifier over all types rests on C01-C04"},
		Phases: func(tier universe.Tier) []*harness.Phase {
			return []*harness.Phase{{
				Name:           "configurations",
				OncePerProcess: true,
				Rule:           "env(5x4) x legacy call(18) x placement(3) child processes (quick: env combinations are paired with calls along a Latin-square diagonal plus the full env matrix for the no-call row; thorough: full product); distinct by configuration",
				Body:           func(c *explore.C) { c17Body(c, tier) },
			}}
		},
	})
}

func c17Body(c *explore.C, tier universe.Tier) {
	di := c.Choose(len(c17Depth), explore.Data, "FRUGAL_MAX_INLINE_DEPTH")
	ii := c.Choose(len(c17IL), explore.Data, "FRUGAL_MAX_INLINE_IL_SIZE")
	ci := c.Choose(len(c17Calls), explore.Data, "legacy-call")
	pi := c.Choose(len(c17Places), explore.Data, "placement")
	if tier == universe.Quick && ci != 0 && (di+ii+ci+pi)%4 != 0 {
		return // quick: a quarter of the (env x call x placement) product, every row and column covered
	}
	if ci == 0 && pi != 0 {
		return
	}
	harness.Cur.Crumb(c.Choices())
	if c17Ref == "" {
		out, err := c17Spawn("", "", 0, 0)
		if err != nil || !strings.HasPrefix(out, "digest ") {
			c.Fail("the plain configuration misbehaves: "+out, &harness.Case{Property: "C17", Class: "plain-run-failed", Detail: out})
			return
		}
		c17Ref = out
	}
	out, err := c17Spawn(c17Depth[di], c17IL[ii], ci, pi)
	cfg := fmt.Sprintf("FRUGAL_MAX_INLINE_DEPTH=%q FRUGAL_MAX_INLINE_IL_SIZE=%q call=%s placement=%s", c17Depth[di], c17IL[ii], c17Calls[ci].name, c17Places[pi])
	if err != nil || out != c17Ref {
		if len(out) > 600 {
			out = out[:600]
		}
		c.Fail(fmt.Sprintf("a legacy control changes behaviour: %s gives %q (err %v), the plain configuration gives %q", cfg, out, err, c17Ref),
			&harness.Case{Property: "C17", Class: "configuration-changes-results", Type: cfg, Detail: out})
		return
	}
	harness.Cur.Outcome(harness.Hash64([]byte(cfg)), c17Calls[ci].name)
	harness.Cur.Sample(func() interface{} { return map[string]string{"configuration": cfg, "battery": out} })
}
