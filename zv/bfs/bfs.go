// Package bfs is engine E3: explicit-state breadth-first search over the real
// API of a small component.  Live objects cannot be cloned, so a state is the
// shortest operation path reaching it: a successor is produced by replaying the
// path on a fresh instance and applying one more operation.  States are
// deduplicated by a canonical key supplied by the caller.
package bfs

import "time"

type Config struct {
	NumOps   int
	MaxDepth int
	// Replay builds a fresh instance, applies the operations of path in order (checking the
	// component's invariants and reference-model agreement on every step) and returns the
	// canonical key of the reached state, or a non-empty violation description.
	Replay   func(path []int) (key string, violation string)
	Deadline time.Time
}

type Result struct {
	States      int64
	Transitions int64
	Depth       int
	Violation   string
	Path        []int
	CapHit      string
}

func Run(cfg Config) *Result {
	res := &Result{}
	k0, v := cfg.Replay(nil)
	if v != "" {
		res.Violation = v
		return res
	}
	seen := map[string]bool{k0: true}
	frontier := [][]int{nil}
	res.States = 1
	for d := 0; d < cfg.MaxDepth && len(frontier) > 0; d++ {
		var next [][]int
		for _, p := range frontier {
			for op := 0; op < cfg.NumOps; op++ {
				np := append(append(make([]int, 0, len(p)+1), p...), op)
				k, v := cfg.Replay(np)
				res.Transitions++
				if v != "" {
					res.Violation, res.Path = v, np
					return res
				}
				if !seen[k] {
					seen[k] = true
					res.States++
					next = append(next, np)
				}
			}
			if !cfg.Deadline.IsZero() && res.Transitions%4096 < int64(cfg.NumOps) && time.Now().After(cfg.Deadline) {
				res.CapHit = "internal deadline reached"
				res.Depth = d
				return res
			}
		}
		frontier = next
		res.Depth = d + 1
	}
	return res
}
