package universe

import (
	"reflect"

	"github.com/cloudwego/frugal/zverif/ref"
)

// Dflt is the static all-optional-kinds struct whose default initialiser copies
// a harness-controlled table, so that the declared defaults can be enumerated
// at run time (each registration after a state reset snapshots the table).
type Dflt struct {
	B    bool             `frugal:"1,optional,bool"`
	I8   int8             `frugal:"2,optional,i8"`
	I16  int16            `frugal:"3,optional,i16"`
	I32  int32            `frugal:"4,optional,i32"`
	I64  int64            `frugal:"5,optional,i64"`
	D    float64          `frugal:"6,optional,double"`
	S    string           `frugal:"7,optional,string"`
	Bin  []byte           `frugal:"8,optional,binary"`
	E    Enum             `frugal:"9,optional,Enum"`
	PI32 *int32           `frugal:"10,optional,i32"`
	PS   *string          `frugal:"11,optional,string"`
	L    []int32          `frugal:"12,optional,list<i32>"`
	M    map[string]int64 `frugal:"13,optional,map<string:i64>"`
	Req  int32            `frugal:"14,required,i32"`
	Def  string           `frugal:"15,default,string"`
	DefD float64          `frugal:"16,default,double"`
}

// DfltTable is what (*Dflt).InitDefault copies.
var DfltTable Dflt

func (p *Dflt) InitDefault() {
	t := &DfltTable
	*p = *t
	if t.Bin != nil {
		p.Bin = append(make([]byte, 0, len(t.Bin)), t.Bin...)
	}
	if t.PI32 != nil {
		x := *t.PI32
		p.PI32 = &x
	}
	if t.PS != nil {
		x := *t.PS
		p.PS = &x
	}
	if t.L != nil {
		p.L = append(make([]int32, 0, len(t.L)), t.L...)
	}
	if t.M != nil {
		p.M = make(map[string]int64, len(t.M))
		for k, v := range t.M {
			p.M[k] = v
		}
	}
}

// DfltOuter nests Dflt in every position the decoder creates structs in.
type DfltOuter struct {
	P  *Dflt           `frugal:"1,optional,Dflt"`
	V  Dflt            `frugal:"2,optional,Dflt"`
	LP []*Dflt         `frugal:"3,optional,list<Dflt>"`
	LV []Dflt          `frugal:"4,optional,list<Dflt>"`
	MP map[int32]*Dflt `frugal:"5,optional,map<i32:Dflt>"`
	MV map[int32]Dflt  `frugal:"6,optional,map<i32:Dflt>"`
	X  int32           `frugal:"7,default,i32"`
}

// StaticSpec derives the ref spec of a static Go struct type from a list of
// (Go field name, id, requiredness, type) and binds Go field indices.
func StaticSpec(rt reflect.Type, name string, fields []*ref.Field) *ref.Struct {
	s := &ref.Struct{Name: name, GoType: rt}
	for _, f := range fields {
		sf, ok := rt.FieldByName(f.Name)
		if !ok {
			panic("no Go field " + f.Name)
		}
		f.GoIdx = sf.Index[0]
		s.Fields = append(s.Fields, f)
	}
	s.SortFields()
	return s
}

// DfltSpec returns the spec of Dflt with the defaults currently in DfltTable.
func DfltSpec() *ref.Struct {
	O := ref.ReqOptional
	sc := Sc
	fs := []*ref.Field{
		{Name: "B", ID: 1, Req: O, Type: sc(ref.KBool)}, {Name: "I8", ID: 2, Req: O, Type: sc(ref.KI8)}, {Name: "I16", ID: 3, Req: O, Type: sc(ref.KI16)},
		{Name: "I32", ID: 4, Req: O, Type: sc(ref.KI32)}, {Name: "I64", ID: 5, Req: O, Type: sc(ref.KI64)}, {Name: "D", ID: 6, Req: O, Type: sc(ref.KDouble)},
		{Name: "S", ID: 7, Req: O, Type: sc(ref.KString)}, {Name: "Bin", ID: 8, Req: O, Type: sc(ref.KBinary)}, {Name: "E", ID: 9, Req: O, Type: sc(ref.KEnum)},
		{Name: "PI32", ID: 10, Req: O, Type: &ref.Type{Kind: ref.KI32, Ptr: true}}, {Name: "PS", ID: 11, Req: O, Type: &ref.Type{Kind: ref.KString, Ptr: true}},
		{Name: "L", ID: 12, Req: O, Type: ListOf(sc(ref.KI32))}, {Name: "M", ID: 13, Req: O, Type: MapOf(sc(ref.KString), sc(ref.KI64))},
		{Name: "Req", ID: 14, Req: ref.ReqRequired, Type: sc(ref.KI32)}, {Name: "Def", ID: 15, Req: ref.ReqDefault, Type: sc(ref.KString)},
		{Name: "DefD", ID: 16, Req: ref.ReqDefault, Type: sc(ref.KDouble)},
	}
	s := StaticSpec(reflect.TypeOf(Dflt{}), "Dflt", fs)
	s.HasInit = true
	tv := ReadStruct(s, reflect.ValueOf(&DfltTable).Elem())
	for i, f := range s.Fields {
		f.Default = tv.F[i]
	}
	return s
}

// DfltOuterSpec returns the spec of DfltOuter around the given Dflt spec.
func DfltOuterSpec(d *ref.Struct) *ref.Struct {
	O := ref.ReqOptional
	fs := []*ref.Field{
		{Name: "P", ID: 1, Req: O, Type: StPtr(d)}, {Name: "V", ID: 2, Req: O, Type: StVal(d)},
		{Name: "LP", ID: 3, Req: O, Type: ListOf(StPtr(d))}, {Name: "LV", ID: 4, Req: O, Type: ListOf(StVal(d))},
		{Name: "MP", ID: 5, Req: O, Type: MapOf(Sc(ref.KI32), StPtr(d))}, {Name: "MV", ID: 6, Req: O, Type: MapOf(Sc(ref.KI32), StVal(d))},
		{Name: "X", ID: 7, Req: ref.ReqDefault, Type: Sc(ref.KI32)},
	}
	return StaticSpec(reflect.TypeOf(DfltOuter{}), "DfltOuter", fs)
}

// SetDfltTable stores v (a value of the Dflt spec) as the default table.
func SetDfltTable(s *ref.Struct, v *ref.Val) {
	x := New(s, v)
	DfltTable = x.Elem().Interface().(Dflt)
}

// DfltOpt has optional fields only, all with non-zero declared defaults: a value
// at its defaults is a bare STOP on the wire.
type DfltOpt struct {
	A int32   `frugal:"1,optional,i32"`
	S string  `frugal:"2,optional,string"`
	D float64 `frugal:"3,optional,double"`
	L []int32 `frugal:"4,optional,list<i32>"`
}

func (p *DfltOpt) InitDefault() {
	p.A, p.S, p.D = 7, "opt", 2.5
	p.L = nil
}

type DfltOptOuter struct {
	P  *DfltOpt           `frugal:"1,optional,DfltOpt"`
	V  DfltOpt            `frugal:"2,default,DfltOpt"`
	LP []*DfltOpt         `frugal:"3,optional,list<DfltOpt>"`
	LV []DfltOpt          `frugal:"4,optional,set<DfltOpt>"`
	MP map[int32]*DfltOpt `frugal:"5,optional,map<i32:DfltOpt>"`
	MV map[string]DfltOpt `frugal:"6,optional,map<string:DfltOpt>"`
}

// DfltOptSpecs returns the specs of DfltOpt and DfltOptOuter.
func DfltOptSpecs() (*ref.Struct, *ref.Struct) {
	O := ref.ReqOptional
	d := StaticSpec(reflect.TypeOf(DfltOpt{}), "DfltOpt", []*ref.Field{
		{Name: "A", ID: 1, Req: O, Type: Sc(ref.KI32), Default: ref.Int(ref.KI32, 7)}, {Name: "S", ID: 2, Req: O, Type: Sc(ref.KString), Default: ref.Str("opt")},
		{Name: "D", ID: 3, Req: O, Type: Sc(ref.KDouble), Default: ref.Double(2.5)}, {Name: "L", ID: 4, Req: O, Type: ListOf(Sc(ref.KI32)), Default: ref.NilOf(ref.KList)},
	})
	d.HasInit = true
	o := StaticSpec(reflect.TypeOf(DfltOptOuter{}), "DfltOptOuter", []*ref.Field{
		{Name: "P", ID: 1, Req: O, Type: StPtr(d)}, {Name: "V", ID: 2, Req: ref.ReqDefault, Type: StVal(d)},
		{Name: "LP", ID: 3, Req: O, Type: ListOf(StPtr(d))}, {Name: "LV", ID: 4, Req: O, Type: SetOf(StVal(d))},
		{Name: "MP", ID: 5, Req: O, Type: MapOf(Sc(ref.KI32), StPtr(d))}, {Name: "MV", ID: 6, Req: O, Type: MapOf(Sc(ref.KString), StVal(d))},
	})
	return d, o
}

// RSpec returns the (self-referential) spec of the recursive type R.
func RSpec() *ref.Struct {
	s := &ref.Struct{Name: "R", GoType: reflect.TypeOf(R{})}
	p := StPtr(s)
	O := ref.ReqOptional
	fs := []*ref.Field{
		{Name: "S", ID: 1, Req: O, Type: p}, {Name: "L", ID: 2, Req: O, Type: ListOf(p)}, {Name: "T", ID: 3, Req: O, Type: SetOf(p)},
		{Name: "MV", ID: 4, Req: O, Type: MapOf(Sc(ref.KI32), p)}, {Name: "MK", ID: 5, Req: O, Type: MapOf(p, Sc(ref.KI32))},
		{Name: "LL", ID: 6, Req: O, Type: ListOf(ListOf(p))}, {Name: "X", ID: 7, Req: O, Type: Sc(ref.KI32)},
	}
	for _, f := range fs {
		sf, _ := s.GoType.FieldByName(f.Name)
		f.GoIdx = sf.Index[0]
		s.Fields = append(s.Fields, f)
	}
	return s
}

// DPSpecs returns the specs of the recursive partial-default type DP and of DPOuter.
func DPSpecs() (*ref.Struct, *ref.Struct) {
	d := &ref.Struct{Name: "DP", GoType: reflect.TypeOf(DP{}), HasInit: true}
	O := ref.ReqOptional
	p := StPtr(d)
	fs := []*ref.Field{
		{Name: "A", ID: 1, Req: O, Type: Sc(ref.KI32), Default: ref.Int(ref.KI32, 5)},
		{Name: "B", ID: 2, Req: O, Type: Sc(ref.KString), Default: ref.Str("")},
		{Name: "C", ID: 3, Req: O, Type: &ref.Type{Kind: ref.KString, Ptr: true}},
		{Name: "L", ID: 4, Req: O, Type: ListOf(Sc(ref.KI32)), Default: ref.List(ref.KList, ref.Int(ref.KI32, 1), ref.Int(ref.KI32, 2))},
		{Name: "Kids", ID: 5, Req: O, Type: ListOf(p), Default: ref.NilOf(ref.KList)},
		{Name: "Next", ID: 6, Req: O, Type: p},
		{Name: "ByVal", ID: 7, Req: O, Type: MapOf(Sc(ref.KString), StVal(d)), Default: ref.NilOf(ref.KMap)},
		{Name: "Vals", ID: 8, Req: O, Type: ListOf(StVal(d)), Default: ref.NilOf(ref.KList)},
	}
	for _, f := range fs {
		sf, _ := d.GoType.FieldByName(f.Name)
		f.GoIdx = sf.Index[0]
		d.Fields = append(d.Fields, f)
	}
	o := StaticSpec(reflect.TypeOf(DPOuter{}), "DPOuter", []*ref.Field{
		{Name: "P", ID: 1, Req: O, Type: p}, {Name: "M", ID: 2, Req: O, Type: MapOf(Sc(ref.KI32), p)},
	})
	return d, o
}

// RWideSpec returns the spec of RWide.
func RWideSpec() *ref.Struct {
	s := &ref.Struct{Name: "RWide", GoType: reflect.TypeOf(RWide{})}
	rt := s.GoType
	for i := 0; i < rt.NumField(); i++ {
		sf := rt.Field(i)
		var t *ref.Type
		switch sf.Type.Kind() {
		case reflect.String:
			t = Sc(ref.KString)
		case reflect.Ptr:
			t = StPtr(s)
		case reflect.Slice:
			switch sf.Type.Elem().Kind() {
			case reflect.Uint8:
				t = Sc(ref.KBinary)
			case reflect.String:
				t = ListOf(Sc(ref.KString))
			default:
				t = ListOf(Sc(ref.KI32))
			}
		}
		var id int
		for _, c := range sf.Tag.Get("frugal") {
			if c < '0' || c > '9' {
				break
			}
			id = id*10 + int(c-'0')
		}
		s.Fields = append(s.Fields, &ref.Field{Name: sf.Name, GoIdx: i, ID: uint16(id), Req: ref.ReqOptional, Type: t})
	}
	s.SortFields()
	return s
}

// DfltRev declares its fields in an order different from their ids, with pairwise different
// defaults: defaults must follow the field, not the position of its declaration.
type DfltRev struct {
	Cache  int     // not serialised (no tag): the positions of Go fields and of Thrift fields differ
	Port   int32   `frugal:"2,optional,i32"`
	Weight int32   `frugal:"1,optional,i32"`
	note   string  // unexported, untagged
	Name   string  `frugal:"4,optional,string"`
	Host   string  `frugal:"3,optional,string"`
	Ratio  float64 `frugal:"6,optional,double"`
	Scale  float64 `frugal:"5,optional,double"`
}

func (p *DfltRev) InitDefault() {
	p.Port, p.Weight, p.Name, p.Host, p.Ratio, p.Scale = 8080, 10, "nm", "host", 1.5, 0.25
	p.Cache, p.note = 77, "n"
}

// DfltRevOuter nests DfltRev where the decoder creates structs, including as a map key.
type DfltRevOuter struct {
	P  *DfltRev           `frugal:"1,optional,DfltRev"`
	L  []*DfltRev         `frugal:"2,default,list<DfltRev>"`
	K  map[*DfltRev]int32 `frugal:"3,default,map<DfltRev:i32>"`
	MV map[string]DfltRev `frugal:"4,default,map<string:DfltRev>"`
}

// DfltRevSpecs returns the specs of DfltRev and DfltRevOuter.
func DfltRevSpecs() (*ref.Struct, *ref.Struct) {
	O, D := ref.ReqOptional, ref.ReqDefault
	d := StaticSpec(reflect.TypeOf(DfltRev{}), "DfltRev", []*ref.Field{
		{Name: "Weight", ID: 1, Req: O, Type: Sc(ref.KI32), Default: ref.Int(ref.KI32, 10)}, {Name: "Port", ID: 2, Req: O, Type: Sc(ref.KI32), Default: ref.Int(ref.KI32, 8080)},
		{Name: "Host", ID: 3, Req: O, Type: Sc(ref.KString), Default: ref.Str("host")}, {Name: "Name", ID: 4, Req: O, Type: Sc(ref.KString), Default: ref.Str("nm")},
		{Name: "Scale", ID: 5, Req: O, Type: Sc(ref.KDouble), Default: ref.Double(0.25)}, {Name: "Ratio", ID: 6, Req: O, Type: Sc(ref.KDouble), Default: ref.Double(1.5)},
	})
	d.HasInit = true
	o := StaticSpec(reflect.TypeOf(DfltRevOuter{}), "DfltRevOuter", []*ref.Field{
		{Name: "P", ID: 1, Req: O, Type: StPtr(d)}, {Name: "L", ID: 2, Req: D, Type: ListOf(StPtr(d))},
		{Name: "K", ID: 3, Req: D, Type: MapOf(StPtr(d), Sc(ref.KI32))}, {Name: "MV", ID: 4, Req: D, Type: MapOf(Sc(ref.KString), StVal(d))},
	})
	return d, o
}
