// Package vatomic mirrors sync/atomic: real atomic operations, each preceded
// by a scheduling point when a scheduled run is active.
package vatomic

import (
	"sync/atomic"
	"unsafe"

	"github.com/cloudwego/frugal/internal/verifshim/sched"
)

func pt(s string) { sched.Point(s) }

type Int32 struct{ v atomic.Int32 }

func (x *Int32) Load() int32                    { pt("atomic.Load"); return x.v.Load() }
func (x *Int32) Store(v int32)                  { pt("atomic.Store"); x.v.Store(v) }
func (x *Int32) Swap(v int32) int32             { pt("atomic.Swap"); return x.v.Swap(v) }
func (x *Int32) CompareAndSwap(o, n int32) bool { pt("atomic.CAS"); return x.v.CompareAndSwap(o, n) }
func (x *Int32) Add(d int32) int32              { pt("atomic.Add"); return x.v.Add(d) }

type Int64 struct{ v atomic.Int64 }

func (x *Int64) Load() int64                    { pt("atomic.Load"); return x.v.Load() }
func (x *Int64) Store(v int64)                  { pt("atomic.Store"); x.v.Store(v) }
func (x *Int64) Swap(v int64) int64             { pt("atomic.Swap"); return x.v.Swap(v) }
func (x *Int64) CompareAndSwap(o, n int64) bool { pt("atomic.CAS"); return x.v.CompareAndSwap(o, n) }
func (x *Int64) Add(d int64) int64              { pt("atomic.Add"); return x.v.Add(d) }

type Uint32 struct{ v atomic.Uint32 }

func (x *Uint32) Load() uint32                    { pt("atomic.Load"); return x.v.Load() }
func (x *Uint32) Store(v uint32)                  { pt("atomic.Store"); x.v.Store(v) }
func (x *Uint32) Swap(v uint32) uint32            { pt("atomic.Swap"); return x.v.Swap(v) }
func (x *Uint32) CompareAndSwap(o, n uint32) bool { pt("atomic.CAS"); return x.v.CompareAndSwap(o, n) }
func (x *Uint32) Add(d uint32) uint32             { pt("atomic.Add"); return x.v.Add(d) }

type Uint64 struct{ v atomic.Uint64 }

func (x *Uint64) Load() uint64                    { pt("atomic.Load"); return x.v.Load() }
func (x *Uint64) Store(v uint64)                  { pt("atomic.Store"); x.v.Store(v) }
func (x *Uint64) Swap(v uint64) uint64            { pt("atomic.Swap"); return x.v.Swap(v) }
func (x *Uint64) CompareAndSwap(o, n uint64) bool { pt("atomic.CAS"); return x.v.CompareAndSwap(o, n) }
func (x *Uint64) Add(d uint64) uint64             { pt("atomic.Add"); return x.v.Add(d) }

type Uintptr struct{ v atomic.Uintptr }

func (x *Uintptr) Load() uintptr          { pt("atomic.Load"); return x.v.Load() }
func (x *Uintptr) Store(v uintptr)        { pt("atomic.Store"); x.v.Store(v) }
func (x *Uintptr) Swap(v uintptr) uintptr { pt("atomic.Swap"); return x.v.Swap(v) }
func (x *Uintptr) CompareAndSwap(o, n uintptr) bool {
	pt("atomic.CAS")
	return x.v.CompareAndSwap(o, n)
}
func (x *Uintptr) Add(d uintptr) uintptr { pt("atomic.Add"); return x.v.Add(d) }

type Bool struct{ v atomic.Bool }

func (x *Bool) Load() bool                    { pt("atomic.Load"); return x.v.Load() }
func (x *Bool) Store(v bool)                  { pt("atomic.Store"); x.v.Store(v) }
func (x *Bool) Swap(v bool) bool              { pt("atomic.Swap"); return x.v.Swap(v) }
func (x *Bool) CompareAndSwap(o, n bool) bool { pt("atomic.CAS"); return x.v.CompareAndSwap(o, n) }

type Pointer[T any] struct{ v atomic.Pointer[T] }

func (x *Pointer[T]) Load() *T                    { pt("atomic.Load"); return x.v.Load() }
func (x *Pointer[T]) Store(v *T)                  { pt("atomic.Store"); x.v.Store(v) }
func (x *Pointer[T]) Swap(v *T) *T                { pt("atomic.Swap"); return x.v.Swap(v) }
func (x *Pointer[T]) CompareAndSwap(o, n *T) bool { pt("atomic.CAS"); return x.v.CompareAndSwap(o, n) }

type Value struct{ v atomic.Value }

func (x *Value) Load() any                    { pt("atomic.Load"); return x.v.Load() }
func (x *Value) Store(v any)                  { pt("atomic.Store"); x.v.Store(v) }
func (x *Value) Swap(v any) any               { pt("atomic.Swap"); return x.v.Swap(v) }
func (x *Value) CompareAndSwap(o, n any) bool { pt("atomic.CAS"); return x.v.CompareAndSwap(o, n) }

func LoadInt32(p *int32) int32          { pt("atomic.Load"); return atomic.LoadInt32(p) }
func StoreInt32(p *int32, v int32)      { pt("atomic.Store"); atomic.StoreInt32(p, v) }
func SwapInt32(p *int32, v int32) int32 { pt("atomic.Swap"); return atomic.SwapInt32(p, v) }
func AddInt32(p *int32, d int32) int32  { pt("atomic.Add"); return atomic.AddInt32(p, d) }
func CompareAndSwapInt32(p *int32, o, n int32) bool {
	pt("atomic.CAS")
	return atomic.CompareAndSwapInt32(p, o, n)
}
func LoadInt64(p *int64) int64          { pt("atomic.Load"); return atomic.LoadInt64(p) }
func StoreInt64(p *int64, v int64)      { pt("atomic.Store"); atomic.StoreInt64(p, v) }
func SwapInt64(p *int64, v int64) int64 { pt("atomic.Swap"); return atomic.SwapInt64(p, v) }
func AddInt64(p *int64, d int64) int64  { pt("atomic.Add"); return atomic.AddInt64(p, d) }
func CompareAndSwapInt64(p *int64, o, n int64) bool {
	pt("atomic.CAS")
	return atomic.CompareAndSwapInt64(p, o, n)
}
func LoadUint32(p *uint32) uint32           { pt("atomic.Load"); return atomic.LoadUint32(p) }
func StoreUint32(p *uint32, v uint32)       { pt("atomic.Store"); atomic.StoreUint32(p, v) }
func SwapUint32(p *uint32, v uint32) uint32 { pt("atomic.Swap"); return atomic.SwapUint32(p, v) }
func AddUint32(p *uint32, d uint32) uint32  { pt("atomic.Add"); return atomic.AddUint32(p, d) }
func CompareAndSwapUint32(p *uint32, o, n uint32) bool {
	pt("atomic.CAS")
	return atomic.CompareAndSwapUint32(p, o, n)
}
func LoadUint64(p *uint64) uint64           { pt("atomic.Load"); return atomic.LoadUint64(p) }
func StoreUint64(p *uint64, v uint64)       { pt("atomic.Store"); atomic.StoreUint64(p, v) }
func SwapUint64(p *uint64, v uint64) uint64 { pt("atomic.Swap"); return atomic.SwapUint64(p, v) }
func AddUint64(p *uint64, d uint64) uint64  { pt("atomic.Add"); return atomic.AddUint64(p, d) }
func CompareAndSwapUint64(p *uint64, o, n uint64) bool {
	pt("atomic.CAS")
	return atomic.CompareAndSwapUint64(p, o, n)
}
func LoadUintptr(p *uintptr) uintptr            { pt("atomic.Load"); return atomic.LoadUintptr(p) }
func StoreUintptr(p *uintptr, v uintptr)        { pt("atomic.Store"); atomic.StoreUintptr(p, v) }
func SwapUintptr(p *uintptr, v uintptr) uintptr { pt("atomic.Swap"); return atomic.SwapUintptr(p, v) }
func AddUintptr(p *uintptr, d uintptr) uintptr  { pt("atomic.Add"); return atomic.AddUintptr(p, d) }
func CompareAndSwapUintptr(p *uintptr, o, n uintptr) bool {
	pt("atomic.CAS")
	return atomic.CompareAndSwapUintptr(p, o, n)
}
func LoadPointer(p *unsafe.Pointer) unsafe.Pointer     { pt("atomic.Load"); return atomic.LoadPointer(p) }
func StorePointer(p *unsafe.Pointer, v unsafe.Pointer) { pt("atomic.Store"); atomic.StorePointer(p, v) }
func SwapPointer(p *unsafe.Pointer, v unsafe.Pointer) unsafe.Pointer {
	pt("atomic.Swap")
	return atomic.SwapPointer(p, v)
}
func CompareAndSwapPointer(p *unsafe.Pointer, o, n unsafe.Pointer) bool {
	pt("atomic.CAS")
	return atomic.CompareAndSwapPointer(p, o, n)
}
