package explore

import "testing"

func TestDevBound(t *testing.T) {
	// 2 data choices of 3, then 4 dev choices of 2: executions = 9 * (1 + 4) with bound 1, 9 * (1+4+6) with bound 2
	for bound, want := range map[int]int64{0: 9, 1: 45, 2: 99} {
		e := &Explorer{Bound: bound}
		e.Run(func(c *C) {
			c.Choose(3, Data, "a")
			c.Choose(3, Data, "b")
			for i := 0; i < 4; i++ {
				c.Choose(2, Dev, "d")
			}
		})
		if e.Stats.Executions != want {
			t.Errorf("bound %d: %d executions, want %d", bound, e.Stats.Executions, want)
		}
	}
}

func TestShards(t *testing.T) {
	var total int64
	for s := 0; s < 4; s++ {
		e := &Explorer{Shard: s, NShards: 4}
		e.Run(func(c *C) {
			c.Choose(10, Data, "a")
			c.Choose(3, Data, "b")
		})
		total += e.Stats.Executions
	}
	if total != 30 {
		t.Errorf("shards cover %d executions, want 30", total)
	}
}

func TestGateShards(t *testing.T) {
	var total int64
	for s := 0; s < 5; s++ {
		e := &Explorer{Shard: s, NShards: 5, GateSharding: true, Bound: 1}
		e.Run(func(c *C) {
			c.Choose(3, Data, "a")
			c.Choose(4, Data, "b")
			c.Gate()
			c.Choose(2, Dev, "d")
			c.Choose(2, Dev, "d")
		})
		total += e.Stats.Executions
	}
	if total != 36 {
		t.Errorf("gate shards cover %d executions, want 36", total)
	}
}
