// Package vsync mirrors the API of package sync on top of the cooperative
// scheduler: outside a scheduled run every operation is a deterministic
// pass-through; inside a run every operation is a scheduling point and blocking
// operations disable the thread.  Pool.Get is additionally an environment
// choice (any pooled object, or a new one).
package vsync

import (
	"github.com/cloudwego/frugal/internal/verifshim/sched"
)

type Locker interface {
	Lock()
	Unlock()
}

type Mutex struct {
	held bool
}

func (m *Mutex) Lock() {
	sched.Point("Mutex.Lock")
	sched.Block("Mutex.Lock", func() bool { return !m.held })
	m.held = true
	raceAcquire(m)
}

func (m *Mutex) TryLock() bool {
	sched.Point("Mutex.TryLock")
	if m.held {
		return false
	}
	m.held = true
	raceAcquire(m)
	return true
}

func (m *Mutex) Unlock() {
	sched.Point("Mutex.Unlock")
	if !m.held {
		panic("sync: unlock of unlocked mutex")
	}
	raceRelease(m)
	m.held = false
}

type RWMutex struct {
	w       bool
	readers int
}

func (m *RWMutex) Lock() {
	sched.Point("RWMutex.Lock")
	sched.Block("RWMutex.Lock", func() bool { return !m.w && m.readers == 0 })
	m.w = true
	raceAcquire(m)
}

func (m *RWMutex) TryLock() bool {
	sched.Point("RWMutex.TryLock")
	if m.w || m.readers > 0 {
		return false
	}
	m.w = true
	raceAcquire(m)
	return true
}

func (m *RWMutex) Unlock() {
	sched.Point("RWMutex.Unlock")
	if !m.w {
		panic("sync: Unlock of unlocked RWMutex")
	}
	raceRelease(m)
	m.w = false
}

func (m *RWMutex) RLock() {
	sched.Point("RWMutex.RLock")
	sched.Block("RWMutex.RLock", func() bool { return !m.w })
	m.readers++
	raceAcquire(m)
}

func (m *RWMutex) TryRLock() bool {
	sched.Point("RWMutex.TryRLock")
	if m.w {
		return false
	}
	m.readers++
	raceAcquire(m)
	return true
}

func (m *RWMutex) RUnlock() {
	sched.Point("RWMutex.RUnlock")
	if m.readers <= 0 {
		panic("sync: RUnlock of unlocked RWMutex")
	}
	raceReleaseMerge(m)
	m.readers--
}

type rlocker RWMutex

func (r *rlocker) Lock()   { (*RWMutex)(r).RLock() }
func (r *rlocker) Unlock() { (*RWMutex)(r).RUnlock() }

func (m *RWMutex) RLocker() Locker { return (*rlocker)(m) }

type Once struct {
	m    Mutex
	done bool
}

func (o *Once) Do(f func()) {
	sched.Point("Once.Do")
	if o.done {
		raceAcquire(o)
		return
	}
	o.m.Lock()
	defer o.m.Unlock()
	if !o.done {
		defer func() {
			raceRelease(o)
			o.done = true
		}()
		f()
	}
}

func OnceFunc(f func()) func() {
	var o Once
	return func() { o.Do(f) }
}

type WaitGroup struct {
	n int
}

func (w *WaitGroup) Add(d int) {
	sched.Point("WaitGroup.Add")
	raceRelease(w)
	w.n += d
	if w.n < 0 {
		panic("sync: negative WaitGroup counter")
	}
}

func (w *WaitGroup) Done() { w.Add(-1) }

func (w *WaitGroup) Wait() {
	sched.Point("WaitGroup.Wait")
	sched.Block("WaitGroup.Wait", func() bool { return w.n == 0 })
	raceAcquire(w)
}

type Cond struct {
	L       Locker
	waiters []*int
}

func NewCond(l Locker) *Cond { return &Cond{L: l} }

func (c *Cond) Wait() {
	tok := new(int)
	c.waiters = append(c.waiters, tok)
	c.L.Unlock()
	sched.Block("Cond.Wait", func() bool { return *tok == 1 })
	raceAcquire(c)
	c.L.Lock()
}

func (c *Cond) Signal() {
	sched.Point("Cond.Signal")
	raceRelease(c)
	if len(c.waiters) > 0 {
		*c.waiters[0] = 1
		c.waiters = c.waiters[1:]
	}
}

func (c *Cond) Broadcast() {
	sched.Point("Cond.Broadcast")
	raceRelease(c)
	for _, w := range c.waiters {
		*w = 1
	}
	c.waiters = nil
}

// Pool: deterministic, immune to GC.  Get may legally return any pooled object
// or a new one; the default answer is the most recently Put object (LIFO, the
// adversarial case for leakage between calls); older objects and "new" are
// deviations decided by the environment chooser.
type Pool struct {
	New   func() any
	items []poolItem
}

type poolItem struct {
	v any
}

func (p *Pool) Put(x any) {
	if x == nil {
		return
	}
	sched.Point("Pool.Put")
	it := poolItem{v: x}
	raceReleaseItem(p, len(p.items))
	p.items = append(p.items, it)
}

func (p *Pool) Get() any {
	sched.Point("Pool.Get")
	n := len(p.items)
	if n > 0 {
		// alternatives: 0 = newest … n-1 = oldest, n = a new object
		k := sched.Env(n+1, "Pool.Get")
		if k < n {
			i := n - 1 - k
			raceAcquireItem(p, i)
			x := p.items[i].v
			copy(p.items[i:], p.items[i+1:])
			p.items[n-1] = poolItem{}
			p.items = p.items[:n-1]
			return x
		}
	}
	if p.New != nil {
		return p.New()
	}
	return nil
}

// Len reports the number of pooled objects (verification hook).
func (p *Pool) Len() int { return len(p.items) }

// Map mirrors sync.Map with a mutex-protected map.
type Map struct {
	mu Mutex
	m  map[any]any
	ks []any // insertion order, for deterministic Range
}

func (m *Map) Load(k any) (any, bool) {
	m.mu.Lock()
	defer m.mu.Unlock()
	v, ok := m.m[k]
	return v, ok
}

func (m *Map) Store(k, v any) {
	m.mu.Lock()
	defer m.mu.Unlock()
	m.store(k, v)
}

func (m *Map) store(k, v any) {
	if m.m == nil {
		m.m = map[any]any{}
	}
	if _, ok := m.m[k]; !ok {
		m.ks = append(m.ks, k)
	}
	m.m[k] = v
}

func (m *Map) LoadOrStore(k, v any) (any, bool) {
	m.mu.Lock()
	defer m.mu.Unlock()
	if x, ok := m.m[k]; ok {
		return x, true
	}
	m.store(k, v)
	return v, false
}

func (m *Map) LoadAndDelete(k any) (any, bool) {
	m.mu.Lock()
	defer m.mu.Unlock()
	v, ok := m.m[k]
	m.del(k)
	return v, ok
}

func (m *Map) del(k any) {
	if _, ok := m.m[k]; ok {
		delete(m.m, k)
		for i, x := range m.ks {
			if x == k {
				m.ks = append(m.ks[:i:i], m.ks[i+1:]...)
				break
			}
		}
	}
}

func (m *Map) Delete(k any) { m.LoadAndDelete(k) }

func (m *Map) Swap(k, v any) (any, bool) {
	m.mu.Lock()
	defer m.mu.Unlock()
	old, ok := m.m[k]
	m.store(k, v)
	return old, ok
}

func (m *Map) CompareAndSwap(k, old, new any) bool {
	m.mu.Lock()
	defer m.mu.Unlock()
	if x, ok := m.m[k]; ok && x == old {
		m.m[k] = new
		return true
	}
	return false
}

func (m *Map) CompareAndDelete(k, old any) bool {
	m.mu.Lock()
	defer m.mu.Unlock()
	if x, ok := m.m[k]; ok && x == old {
		m.del(k)
		return true
	}
	return false
}

func (m *Map) Range(f func(k, v any) bool) {
	m.mu.Lock()
	ks := append([]any{}, m.ks...)
	m.mu.Unlock()
	for _, k := range ks {
		v, ok := m.Load(k)
		if !ok {
			continue
		}
		if !f(k, v) {
			return
		}
	}
}
