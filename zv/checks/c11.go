package checks

import (
	"bytes"
	"fmt"

	"github.com/cloudwego/frugal/zverif/explore"
	"github.com/cloudwego/frugal/zverif/harness"
	"github.com/cloudwego/frugal/zverif/hooks"
	"github.com/cloudwego/frugal/zverif/ref"
	"github.com/cloudwego/frugal/zverif/universe"
)

var c11Nests = []string{"field*", "field", "list*", "list", "mapval*", "mapval"}

// unknown field types: every wire type; scalars, string, struct, containers of scalars/strings/structs, nested twice
func c11UnknownTypes() []*ref.Type {
	sc := universe.Sc
	lf := universe.Leaf()
	return append(evolveTypes(), sc(ref.KBinary), sc(ref.KEnum),
		universe.ListOf(universe.ListOf(sc(ref.KString))), universe.MapOf(sc(ref.KI64), universe.MapOf(sc(ref.KString), universe.StPtr(lf))),
		universe.SetOf(sc(ref.KDouble)), universe.StVal(lf))
}

type c11Extra struct {
	level int // 0 top, 1 N, 2 N2
	id    uint16
	t     *ref.Type
}

// c11Build builds the schema tree; extras are added (writer) or not (reader).
// c11HolderFirst: the structs of the next c11Build call declare the holder before their tagged fields.
var c11HolderFirst bool

func c11Build(nest string, holder bool, extras []c11Extra, fixedN bool) *ref.Struct {
	sc := universe.Sc
	D, O := ref.ReqDefault, ref.ReqOptional
	add := func(s *ref.Struct, level int) *ref.Struct {
		for _, e := range extras {
			if e.level == level {
				s.Fields = append(s.Fields, fd(e.id, D, e.t))
			}
		}
		s.SortFields()
		s.Unknown = holder
		s.UnknownFirst = holder && c11HolderFirst
		return s
	}
	n2 := add(mk(fd(2, D, sc(ref.KBool)), fd(5, D, sc(ref.KString))), 2)
	n := mk(fd(2, D, sc(ref.KI64)), fd(5, D, universe.ListOf(sc(ref.KI16))), fd(8, O, universe.StPtr(n2)))
	if fixedN {
		// fixed-size, always-written fields only: the shape size shortcuts apply to
		n = mk(fd(2, D, sc(ref.KI64)), fd(5, D, sc(ref.KBool)))
	}
	n = add(n, 1)
	var nt *ref.Type
	switch nest {
	case "field*":
		nt = universe.StPtr(n)
	case "field":
		nt = universe.StVal(n)
	case "list*":
		nt = universe.ListOf(universe.StPtr(n))
	case "list":
		nt = universe.ListOf(universe.StVal(n))
	case "mapval*":
		nt = universe.MapOf(sc(ref.KI32), universe.StPtr(n))
	case "mapval":
		nt = universe.MapOf(sc(ref.KString), universe.StVal(n))
	}
	return add(mk(fd(2, D, sc(ref.KI32)), fd(5, D, sc(ref.KString)), fd(8, D, nt)), 0)
}

// c11Value fills a writer value: every field set; containers hold two elements.
func c11Value(s *ref.Struct, salt int) *ref.Val {
	v := &ref.Val{K: ref.KStruct, F: make([]*ref.Val, len(s.Fields))}
	for i, f := range s.Fields {
		v.F[i] = c11Fill(f.Type, salt+i)
	}
	return v
}

func c11Fill(t *ref.Type, salt int) *ref.Val {
	switch t.Kind {
	case ref.KStruct:
		return c11Value(t.St, salt+1)
	case ref.KList, ref.KSet:
		return &ref.Val{K: t.Kind, L: []*ref.Val{c11Fill(t.Elem, salt), c11Fill(t.Elem, salt+3)}}
	case ref.KMap:
		return &ref.Val{K: ref.KMap, M: [][2]*ref.Val{{universe.Nth(t.Key, salt), c11Fill(t.Elem, salt)}, {universe.Nth(t.Key, salt+1), c11Fill(t.Elem, salt+5)}}}
	}
	return universe.Nth(t, salt)
}

var c11Places = []uint16{1, 3, 9, 300}

func init() {
	harness.Register(&harness.Check{
		ID:          "C11",
		Level:       "model_checking",
		Explanation: "Bounded exhaustive enumeration (E1): (newer writer, older reader) pairs where the writer adds one or two fields of every wire type before/between/after the known fields at nesting levels 1-3 and in six nesting forms; three wire orders; readers with and without the holder. Every execution decodes with the real code, compares holder bytes and known fields with the reference, re-encodes (size and bytes), and decodes the re-encoded bytes with the writer type (second hop). Component phase (E3): explicit-state search over the real unknown-field index against a byte-slice model.",
		Assumptions: []string{"go1.23.5 toolchain", "reflect.StructOf types with an unexported _unknownFields field (PkgPath set) behave like compiled types"},
		Phases: func(tier universe.Tier) []*harness.Phase {
			ps := []*harness.Phase{{
				Name: "unknown-fields",
				Rule: "6 nesting forms x 3 levels x 4 placements x 19 unknown field types x 21 second-extra variants (thorough: 117; incl. 9 and 17 additional unknown fields in one struct) x 3 wire orders x holder declared last / first; each with holder (decode, size, re-encode, second hop) and without; distinct by message bytes",
				Body: func(c *explore.C) { c11Body(c, tier) },
			}}
			return append(ps, e3Phases("C11")...)
		},
	})
}

func c11Body(c *explore.C, tier universe.Tier) {
	nest := c11Nests[c.Choose(len(c11Nests), explore.Data, "nest")]
	uts := c11UnknownTypes()
	e1 := c11Extra{level: c.Choose(3, explore.Data, "level"), id: c11Places[c.Choose(len(c11Places), explore.Data, "place")], t: uts[c.Choose(len(uts), explore.Data, "unknown-type")]}
	extras := []c11Extra{e1}
	// second extra field: none, or one of 3 types x 2 places x 3 levels; or MANY extra fields in one struct
	seconds := []*ref.Type{universe.Sc(ref.KI16), universe.Sc(ref.KString), universe.ListOf(universe.StPtr(universe.Leaf()))}
	if tier == universe.Thorough {
		seconds = uts // thorough: the second extra field ranges over every unknown type too
	}
	ns := len(seconds)
	k := c.Choose(1+ns*6+2, explore.Data, "second-extra")
	if k >= 1+ns*6 {
		n := []int{9, 17}[k-1-ns*6]
		for i := 0; i < n; i++ {
			extras = append(extras, c11Extra{level: e1.level, id: uint16(400 + 3*i), t: uts[(i*5+1)%len(uts)]})
		}
	} else if k > 0 {
		k--
		e2 := c11Extra{level: (k / ns) % 3, id: []uint16{4, 301}[k/(3*ns)], t: seconds[k%ns]}
		extras = append(extras, e2)
	}
	ord := c.Choose(3, explore.Data, "wire-order")
	fixedN := c.Bool(explore.Data, "nested-struct-fixed-size-only")
	c11HolderFirst = false
	if len(extras) == 1 {
		// (only without a second extra field: the holder's position is independent of what is skipped)
		c11HolderFirst = c.Bool(explore.Data, "holder-declared-first")
	}
	harness.Cur.Crumb(c.Choices())
	hooks.Reset()

	W := c11Build(nest, false, extras, fixedN)
	T := c11Build(nest, true, nil, fixedN)
	Tn := c11Build(nest, false, nil, fixedN)
	wv := c11Value(W, 3)
	msg := ref.EncodeWith(W, wv, func(st *ref.Struct) []int {
		n := len(st.Fields)
		o := make([]int, n)
		for i := range o {
			switch ord {
			case 0:
				o[i] = i
			case 1:
				o[i] = n - 1 - i
			default:
				o[i] = (i + 2) % n
			}
		}
		return o
	})
	how := fmt.Sprintf("nest=%s extras=%v order=%d fixed-size-nested=%v", nest, describeExtras(extras), ord, fixedN)
	// 1. decode with the holder
	dv := decodeAndCompare(T, msg, decodeOpts{Guard: true})
	if dv.Class != "" {
		c.Fail(dv.Msg+" [reader with holder; "+how+"]", mkCase("C11", dv.Class, T, wv, msg, dv.detail()))
		return
	}
	if !dv.Exp.OK {
		panic("harness error: reference rejects a writer message: " + dv.Exp.Err.String())
	}
	// 2. re-encode: size counts the retained bytes, bytes are the reference's
	mid := universe.New(T, dv.Exp.V)
	want := ref.Encode(T, dv.Exp.V)
	if r := Size(mid.Interface()); r.Panic != nil || r.N != len(want) {
		c.Fail(fmt.Sprintf("EncodedSize of a value with retained unknown fields: %v, want %d [%s]", r, len(want), how), mkCase("C11", "size-mismatch", T, dv.Exp.V, msg, nil))
		return
	}
	buf := make([]byte, len(want))
	r := Enc(buf, mid.Interface())
	if r.Panic != nil || r.Err != nil || r.N != len(want) {
		c.Fail(fmt.Sprintf("EncodeObject of a value with retained unknown fields: %v, want n=%d [%s]", r, len(want), how), mkCase("C11", "reencode-failed", T, dv.Exp.V, msg, nil))
		return
	}
	gc, err := ref.Canonical(buf[:r.N])
	wc, _ := ref.Canonical(want)
	if err != nil || !bytes.Equal(gc, wc) {
		c.Fail("re-encoded bytes differ from the reference (unknown fields must be re-emitted inside their struct, before its STOP) ["+how+"]", mkCase("C11", "reencode-mismatch", T, dv.Exp.V, buf[:r.N], map[string]string{"reference": hx(want)}))
		return
	}
	// 3. second hop: the newer schema reads everything back
	hop := decodeAndCompare(W, buf[:r.N], decodeOpts{})
	if hop.Class != "" {
		c.Fail("second hop: "+hop.Msg+" ["+how+"]", mkCase("C11", "second-hop-"+hop.Class, W, wv, buf[:r.N], hop.detail()))
		return
	}
	orig := ref.Decode(W, ref.Encode(W, wv), nil, ref.DecOpts{})
	if hop.Exp.V.Canon() != orig.V.Canon() {
		panic("harness error: reference second hop loses data: " + how)
	}
	// 4. without the holder: dropped, known fields unaffected
	dn := decodeAndCompare(Tn, msg, decodeOpts{Guard: true})
	if dn.Class != "" {
		c.Fail(dn.Msg+" [reader without holder; "+how+"]", mkCase("C11", "noholder-"+dn.Class, Tn, wv, msg, dn.detail()))
		return
	}
	harness.Cur.Evals(4)
	harness.Cur.Outcome(harness.Hash64(msg), fmt.Sprintf("%s/level%d", nest, e1.level))
	harness.Cur.Sample(func() interface{} {
		return map[string]interface{}{"reader": T.String(), "writer": W.String(), "message": hx(msg), "holder_top": hx(dv.Exp.V.Unk)}
	})
}

func describeExtras(es []c11Extra) string {
	s := ""
	for _, e := range es {
		s += fmt.Sprintf("[level %d id %d %s]", e.level, e.id, e.t)
	}
	return s
}
