// Package universe builds the bounded universe of struct types, values and
// messages the checks enumerate (DESIGN.md §2.5).  Types are assembled at run
// time with reflect.StructOf from ref.Struct specs; values are converted
// between ref.Val trees and reflect.Values.
package universe

import (
	"fmt"
	"reflect"
	"strings"
	"unsafe"

	"github.com/cloudwego/frugal/zverif/ref"
)

// Enum is the one enum type of the universe: a named int64 annotated with its own name.
type Enum int64

// IntEnum is a hand-written enum: a named type whose underlying type is int rather than int64.
type IntEnum int

var (
	tBool   = reflect.TypeOf(false)
	tI8     = reflect.TypeOf(int8(0))
	tI16    = reflect.TypeOf(int16(0))
	tI32    = reflect.TypeOf(int32(0))
	tI64    = reflect.TypeOf(int64(0))
	tDouble = reflect.TypeOf(float64(0))
	tString = reflect.TypeOf("")
	tBytes  = reflect.TypeOf([]byte(nil))
	tEnum   = reflect.TypeOf(Enum(0))
)

// GoType returns the Go type representing t.
func GoType(t *ref.Type) reflect.Type {
	rt := goElemType(t)
	if t.Ptr {
		return reflect.PtrTo(rt)
	}
	return rt
}

func goElemType(t *ref.Type) reflect.Type {
	switch t.Kind {
	case ref.KBool:
		return tBool
	case ref.KI8:
		return tI8
	case ref.KI16:
		return tI16
	case ref.KI32:
		return tI32
	case ref.KI64:
		switch {
		case t.GoInt && t.Named:
			return reflect.TypeOf(IntEnum(0))
		case t.GoInt:
			return reflect.TypeOf(int(0))
		case t.Named:
			return tEnum
		}
		return tI64
	case ref.KDouble:
		return tDouble
	case ref.KString:
		if t.Named {
			return reflect.TypeOf(NamedStr(""))
		}
		return tString
	case ref.KBinary:
		if t.Named {
			return reflect.TypeOf(NamedBytes(nil))
		}
		return tBytes
	case ref.KEnum:
		if t.GoInt {
			return reflect.TypeOf(IntEnum(0))
		}
		return tEnum
	case ref.KStruct:
		return StructGoType(t.St)
	case ref.KList, ref.KSet:
		return reflect.SliceOf(GoType(t.Elem))
	case ref.KMap:
		return reflect.MapOf(GoType(t.Key), GoType(t.Elem))
	}
	panic("bad kind")
}

// FieldTag renders the frugal struct tag of a field.
func FieldTag(f *ref.Field) string {
	ann := f.Type.Annot()
	if TypelessOptions && f.NoCopy && (f.Type.Kind == ref.KString || f.Type.Kind == ref.KBinary) {
		ann = "" // "id,req,,nocopy": the type is derived from the Go type, the option still applies
	}
	s := fmt.Sprintf("%d,%s,%s", f.ID, f.Req, ann)
	if f.NoCopy {
		s += ",nocopy"
	}
	return s
}

// TypelessOptions makes FieldTag leave out the type descriptor of nocopy string/binary fields.
var TypelessOptions bool

// Salt, when non-empty, is added as an extra (ignored) tag key to every struct
// built, which makes the resulting Go types distinct from all earlier ones: a
// stock of never-before-seen types for first-use scenarios.
var Salt string

// StructGoType builds (once) the Go struct type of s with reflect.StructOf.
func StructGoType(s *ref.Struct) reflect.Type {
	if s.GoType != nil {
		return s.GoType
	}
	var sf []reflect.StructField
	order := s.Fields
	if s.DeclReversed {
		// the Go declaration order is the reverse of the id order (generated code is not always sorted)
		order = make([]*ref.Field, len(s.Fields))
		for i, f := range s.Fields {
			order[len(s.Fields)-1-i] = f
		}
	}
	holderField := reflect.StructField{Name: "_unknownFields", PkgPath: "github.com/cloudwego/frugal/zverif/universe", Type: tBytes}
	if s.Unknown && s.UnknownFirst {
		s.UnkIdx = 0
		sf = append(sf, holderField)
	}
	for i, f := range order {
		if f.Name == "" {
			f.Name = fmt.Sprintf("F%d", i)
		}
		f.GoIdx = len(sf)
		tag := `frugal:"` + FieldTag(f) + `"`
		if Salt != "" {
			tag += ` vz:"` + Salt + `"`
		}
		sf = append(sf, reflect.StructField{Name: f.Name, Type: GoType(f.Type), Tag: reflect.StructTag(tag)})
	}
	if s.Unknown && !s.UnknownFirst {
		s.UnkIdx = len(sf)
		sf = append(sf, holderField)
	}
	s.GoType = reflect.StructOf(sf)
	return s.GoType
}

// GoSource renders s roughly as Go source, for replay files and messages.
func GoSource(s *ref.Struct) string {
	var sb strings.Builder
	sb.WriteString("struct {\n")
	rt := StructGoType(s)
	for i := 0; i < rt.NumField(); i++ {
		f := rt.Field(i)
		fmt.Fprintf(&sb, "\t%s %s `%s`\n", f.Name, f.Type, f.Tag)
	}
	sb.WriteString("}")
	return sb.String()
}

// holder returns an addressable, settable []byte Value for the unexported holder field.
func holder(sv reflect.Value, idx int) reflect.Value {
	f := sv.Field(idx)
	return reflect.NewAt(tBytes, unsafe.Pointer(f.UnsafeAddr())).Elem()
}
