//go:build race

package sched

import "runtime"

// The hand-off channel operations are hidden from the race detector: they must
// not order the memory accesses of the two threads.

//go:norace
func handOff(wake, wait chan struct{}) {
	runtime.RaceDisable()
	wake <- struct{}{}
	<-wait
	runtime.RaceEnable()
}

//go:norace
func wakeOnly(wake chan struct{}) {
	runtime.RaceDisable()
	wake <- struct{}{}
	runtime.RaceEnable()
}

//go:norace
func waitWake(wait chan struct{}) {
	runtime.RaceDisable()
	<-wait
	runtime.RaceEnable()
}

// RaceBuild reports whether the binary was built with the race detector.
const RaceBuild = true

// Invisible runs f with the race detector's handling of synchronisation events switched off for
// this goroutine: harness bookkeeping done from inside a thread (breadcrumb file writes) must not
// create happens-before edges between threads.
//
//go:norace
func Invisible(f func()) {
	runtime.RaceDisable()
	f()
	runtime.RaceEnable()
}
