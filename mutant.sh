#!/bin/sh
# usage: mutant.sh <patch file | git rev> <check id>... 
# Applies a patch to (or checks out a revision of) a scratch worktree of /repo
# outside /repo and /verif, runs the repository's own test suite there (must
# still pass for a seeded change to count), runs the named checks against it,
# then removes the worktree.  /repo and /verif/evidence are never touched.
set -u
P=$1; shift
W=$(mktemp -d /var/tmp/verif-wt-XXXXXX)
O=$(mktemp -d /var/tmp/verif-out-XXXXXX)
trap 'git -C /repo worktree remove --force "$W" >/dev/null 2>&1; rm -rf "$W" "$O"' EXIT INT TERM
rmdir "$W"
if [ -f "$P" ]; then
  git -C /repo worktree add -q --detach "$W" HEAD || exit 3
  git -C "$W" apply "$P" || { echo "patch does not apply"; exit 3; }
else
  git -C /repo worktree add -q --detach "$W" "$P" || exit 3
fi
if [ "${SKIP_BASELINE:-0}" != 1 ]; then
  if VERIF_REPO="$W" "${VERIF_DIR:-/verif}"/baseline.sh >"$O/baseline.log" 2>&1; then echo "baseline tests: PASS"; else echo "baseline tests: FAIL"; tail -20 "$O/baseline.log"; fi
fi
for c in "$@"; do
  echo "== $c"
  VERIF_REPO="$W" VERIF_OUT="$O" "${VERIF_DIR:-/verif}"/check.sh "$c" --tier "${TIER:-quick}" 2>&1 | grep -v "^C[0-9]*/" | head -${LINES_MAX:-12}
  echo "exit=$?"
done
