//go:build !race

package vsync

func raceAcquire(p any)              {}
func raceRelease(p any)              {}
func raceReleaseMerge(p any)         {}
func raceAcquireItem(p *Pool, i int) {}
func raceReleaseItem(p *Pool, i int) {}
