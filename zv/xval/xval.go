// Package xval parses Thrift Binary data with two independent Thrift
// implementations - Apache Thrift's TBinaryProtocol and cloudwego/gopkg's
// thrift.Binary primitives - into ref.Val trees through one generic
// schema-driven reader.  It serves two purposes: the C02 oracle ("an
// independent Thrift implementation parses the output to the same value") and
// the cross-validation of the reference encoder itself.
package xval

import (
	"fmt"
	"math"

	athrift "github.com/apache/thrift/lib/go/thrift"
	"github.com/cloudwego/frugal/zverif/ref"
	gthrift "github.com/cloudwego/gopkg/protocol/thrift"
)

// prim is the primitive-reader interface both libraries are adapted to.
type prim interface {
	FieldBegin() (t byte, id uint16, err error)
	Bool() (bool, error)
	I8() (int8, error)
	I16() (int16, error)
	I32() (int32, error)
	I64() (int64, error)
	Double() (float64, error)
	Bytes() ([]byte, error)
	MapBegin() (kt, vt byte, n int, err error)
	ListBegin() (et byte, n int, err error)
	SetBegin() (et byte, n int, err error)
	Skip(t byte) error
	Consumed() int
}

// ---- Apache Thrift -------------------------------------------------------------

type apache struct {
	p     *athrift.TBinaryProtocol
	buf   *athrift.TMemoryBuffer
	total int
}

func newApache(b []byte) *apache {
	mb := athrift.NewTMemoryBufferLen(len(b))
	mb.Write(b)
	return &apache{p: athrift.NewTBinaryProtocol(mb, false, true), buf: mb, total: len(b)}
}

func (a *apache) FieldBegin() (byte, uint16, error) {
	_, t, id, err := a.p.ReadFieldBegin()
	return byte(t), uint16(id), err
}
func (a *apache) Bool() (bool, error)      { return a.p.ReadBool() }
func (a *apache) I8() (int8, error)        { return a.p.ReadByte() }
func (a *apache) I16() (int16, error)      { return a.p.ReadI16() }
func (a *apache) I32() (int32, error)      { return a.p.ReadI32() }
func (a *apache) I64() (int64, error)      { return a.p.ReadI64() }
func (a *apache) Double() (float64, error) { return a.p.ReadDouble() }
func (a *apache) Bytes() ([]byte, error)   { return a.p.ReadBinary() }
func (a *apache) MapBegin() (byte, byte, int, error) {
	k, v, n, err := a.p.ReadMapBegin()
	return byte(k), byte(v), n, err
}
func (a *apache) ListBegin() (byte, int, error) {
	e, n, err := a.p.ReadListBegin()
	return byte(e), n, err
}
func (a *apache) SetBegin() (byte, int, error) {
	e, n, err := a.p.ReadSetBegin()
	return byte(e), n, err
}
func (a *apache) Skip(t byte) error { return a.p.Skip(athrift.TType(t)) }
func (a *apache) Consumed() int     { return a.total - a.buf.Len() }

// ---- gopkg ---------------------------------------------------------------------

type gopkg struct {
	b []byte
	i int
}

func (g *gopkg) adv(l int, err error) error {
	if err == nil {
		g.i += l
	}
	return err
}
func (g *gopkg) FieldBegin() (byte, uint16, error) {
	t, id, l, err := gthrift.Binary.ReadFieldBegin(g.b[g.i:])
	return byte(t), uint16(id), g.adv(l, err)
}
func (g *gopkg) Bool() (bool, error) {
	v, l, err := gthrift.Binary.ReadBool(g.b[g.i:])
	return v, g.adv(l, err)
}
func (g *gopkg) I8() (int8, error) {
	v, l, err := gthrift.Binary.ReadByte(g.b[g.i:])
	return v, g.adv(l, err)
}
func (g *gopkg) I16() (int16, error) {
	v, l, err := gthrift.Binary.ReadI16(g.b[g.i:])
	return v, g.adv(l, err)
}
func (g *gopkg) I32() (int32, error) {
	v, l, err := gthrift.Binary.ReadI32(g.b[g.i:])
	return v, g.adv(l, err)
}
func (g *gopkg) I64() (int64, error) {
	v, l, err := gthrift.Binary.ReadI64(g.b[g.i:])
	return v, g.adv(l, err)
}
func (g *gopkg) Double() (float64, error) {
	v, l, err := gthrift.Binary.ReadDouble(g.b[g.i:])
	return v, g.adv(l, err)
}
func (g *gopkg) Bytes() ([]byte, error) {
	v, l, err := gthrift.Binary.ReadBinary(g.b[g.i:])
	return v, g.adv(l, err)
}
func (g *gopkg) MapBegin() (byte, byte, int, error) {
	k, v, n, l, err := gthrift.Binary.ReadMapBegin(g.b[g.i:])
	return byte(k), byte(v), n, g.adv(l, err)
}
func (g *gopkg) ListBegin() (byte, int, error) {
	e, n, l, err := gthrift.Binary.ReadListBegin(g.b[g.i:])
	return byte(e), n, g.adv(l, err)
}
func (g *gopkg) SetBegin() (byte, int, error) {
	e, n, l, err := gthrift.Binary.ReadSetBegin(g.b[g.i:])
	return byte(e), n, g.adv(l, err)
}
func (g *gopkg) Skip(t byte) error {
	l, err := gthrift.Binary.Skip(g.b[g.i:], gthrift.TType(t))
	return g.adv(l, err)
}
func (g *gopkg) Consumed() int { return g.i }

// ---- generic schema-driven reader ---------------------------------------------------

// Apache parses b as a message of s with Apache Thrift and returns the value and bytes consumed.
func Apache(s *ref.Struct, b []byte) (v *ref.Val, n int, err error) {
	defer func() {
		if p := recover(); p != nil {
			err = fmt.Errorf("apache reader panicked: %v", p)
		}
	}()
	a := newApache(b)
	v = ref.ZeroStruct(s)
	err = readStruct(a, s, v)
	return v, a.Consumed(), err
}

// Gopkg parses b as a message of s with gopkg's thrift.Binary primitives.
func Gopkg(s *ref.Struct, b []byte) (v *ref.Val, n int, err error) {
	defer func() {
		if p := recover(); p != nil {
			err = fmt.Errorf("gopkg reader panicked: %v", p)
		}
	}()
	g := &gopkg{b: b}
	v = ref.ZeroStruct(s)
	err = readStruct(g, s, v)
	return v, g.Consumed(), err
}

// GopkgSkipLen returns the length thrift.Binary.Skip assigns to the struct at the start of b.
func GopkgSkipLen(b []byte) (int, error) { return gthrift.Binary.Skip(b, gthrift.STRUCT) }

func readStruct(p prim, s *ref.Struct, dst *ref.Val) error {
	for {
		t, id, err := p.FieldBegin()
		if err != nil {
			return err
		}
		if t == ref.WStop {
			return nil
		}
		var f *ref.Field
		fi := -1
		for k, x := range s.Fields {
			if x.ID == id {
				f, fi = x, k
			}
		}
		if f == nil || f.Type.Kind.Wire() != t {
			if err := p.Skip(t); err != nil {
				return err
			}
			continue
		}
		v, err := readVal(p, f.Type)
		if err != nil {
			return err
		}
		dst.F[fi] = v
	}
}

func readVal(p prim, t *ref.Type) (*ref.Val, error) {
	v := &ref.Val{K: t.Kind}
	switch t.Kind {
	case ref.KBool:
		x, err := p.Bool()
		if x {
			v.U = 1
		}
		return v, err
	case ref.KI8:
		x, err := p.I8()
		v.U = uint64(int64(x))
		return v, err
	case ref.KI16:
		x, err := p.I16()
		v.U = uint64(int64(x))
		return v, err
	case ref.KI32, ref.KEnum:
		x, err := p.I32()
		v.U = uint64(int64(x))
		return v, err
	case ref.KI64:
		x, err := p.I64()
		v.U = uint64(x)
		return v, err
	case ref.KDouble:
		x, err := p.Double()
		v.U = math.Float64bits(x)
		return v, err
	case ref.KString, ref.KBinary:
		x, err := p.Bytes()
		v.B = append([]byte{}, x...)
		return v, err
	case ref.KStruct:
		v = ref.InitStruct(t.St)
		return v, readStruct(p, t.St, v)
	case ref.KList, ref.KSet:
		var et byte
		var n int
		var err error
		if t.Kind == ref.KList {
			et, n, err = p.ListBegin()
		} else {
			et, n, err = p.SetBegin()
		}
		if err != nil {
			return nil, err
		}
		if et != t.Elem.Kind.Wire() {
			return nil, fmt.Errorf("element type %d, schema says %d", et, t.Elem.Kind.Wire())
		}
		v.L = make([]*ref.Val, 0, n)
		for i := 0; i < n; i++ {
			e, err := readVal(p, t.Elem)
			if err != nil {
				return nil, err
			}
			v.L = append(v.L, e)
		}
		return v, nil
	case ref.KMap:
		kt, vt, n, err := p.MapBegin()
		if err != nil {
			return nil, err
		}
		if n > 0 && (kt != t.Key.Kind.Wire() || vt != t.Elem.Kind.Wire()) {
			return nil, fmt.Errorf("map types %d:%d, schema says %d:%d", kt, vt, t.Key.Kind.Wire(), t.Elem.Kind.Wire())
		}
		v.M = make([][2]*ref.Val, 0, n)
		for i := 0; i < n; i++ {
			k, err := readVal(p, t.Key)
			if err != nil {
				return nil, err
			}
			e, err := readVal(p, t.Elem)
			if err != nil {
				return nil, err
			}
			v.M = append(v.M, [2]*ref.Val{k, e})
		}
		return v, nil
	}
	return nil, fmt.Errorf("bad kind")
}
