package universe

import (
	"github.com/cloudwego/frugal/zverif/ref"
)

// S9: the scalar kinds.
var S9 = []ref.Kind{ref.KBool, ref.KI8, ref.KI16, ref.KI32, ref.KI64, ref.KDouble, ref.KString, ref.KBinary, ref.KEnum}

// keyScalars: scalar kinds usable as map keys (binary is not comparable in Go).
var keyScalars = []ref.Kind{ref.KBool, ref.KI8, ref.KI16, ref.KI32, ref.KI64, ref.KDouble, ref.KString, ref.KEnum}

// Leaf returns a fresh copy of the leaf struct used in struct positions of the
// generated type grammar: {1: default i32; 2: optional *string}.
func Leaf() *ref.Struct {
	return &ref.Struct{Fields: []*ref.Field{
		{ID: 1, Req: ref.ReqDefault, Type: &ref.Type{Kind: ref.KI32}},
		{ID: 2, Req: ref.ReqOptional, Type: &ref.Type{Kind: ref.KString, Ptr: true}},
	}}
}

var leaf = Leaf()

// LeafFixed: a struct with fixed-size, always-written fields only (no variable-length part).
func LeafFixed() *ref.Struct {
	return &ref.Struct{Fields: []*ref.Field{
		{ID: 1, Req: ref.ReqDefault, Type: &ref.Type{Kind: ref.KI64}},
		{ID: 2, Req: ref.ReqDefault, Type: &ref.Type{Kind: ref.KBool}},
	}}
}

// LeafHolder: fixed-size fields plus the unknown-fields holder.
func LeafHolder() *ref.Struct {
	return &ref.Struct{Unknown: true, Fields: []*ref.Field{
		{ID: 1, Req: ref.ReqDefault, Type: &ref.Type{Kind: ref.KI16}},
	}}
}

var (
	leafFixed  = LeafFixed()
	leafHolder = LeafHolder()
)

func Sc(k ref.Kind) *ref.Type       { return &ref.Type{Kind: k} }
func StPtr(s *ref.Struct) *ref.Type { return &ref.Type{Kind: ref.KStruct, St: s, Ptr: true} }
func StVal(s *ref.Struct) *ref.Type { return &ref.Type{Kind: ref.KStruct, St: s} }
func ListOf(e *ref.Type) *ref.Type  { return &ref.Type{Kind: ref.KList, Elem: e} }
func SetOf(e *ref.Type) *ref.Type   { return &ref.Type{Kind: ref.KSet, Elem: e} }
func MapOf(k, v *ref.Type) *ref.Type {
	return &ref.Type{Kind: ref.KMap, Key: k, Elem: v}
}

// T1 = S9 ∪ {*St, St} for three leaf structs: mixed (fixed + optional
// pointer), fixed-size-only, and fixed-size with the unknown-fields holder.
func T1() []*ref.Type {
	var r []*ref.Type
	for _, k := range S9 {
		r = append(r, Sc(k))
	}
	return append(r, StPtr(leaf), StVal(leaf), StPtr(leafFixed), StVal(leafFixed), StPtr(leafHolder), StVal(leafHolder))
}

// K9 = the eight scalar key kinds plus *struct.
func K9() []*ref.Type {
	var r []*ref.Type
	for _, k := range keyScalars {
		r = append(r, Sc(k))
	}
	return append(r, StPtr(leaf))
}

// T returns T(d): T(1) = T1, T(d+1) = T(d) ∪ list<T(d)> ∪ set<T(d)> ∪ map<K9:T(d)>.
func T(d int) []*ref.Type {
	if d <= 1 {
		return T1()
	}
	prev := T(d - 1)
	r := append([]*ref.Type{}, prev...)
	for _, e := range prev {
		r = append(r, ListOf(e))
	}
	for _, e := range prev {
		r = append(r, SetOf(e))
	}
	for _, k := range K9() {
		for _, e := range prev {
			r = append(r, MapOf(k, e))
		}
	}
	return r
}

// FieldShell describes how a type is placed in a struct field.
type FieldShell struct {
	Req ref.Req
	Ptr bool // scalar/string as optional pointer
}

// Shells returns the legal field shells of a type: every requiredness, plus the
// optional-pointer form for scalars and strings.
func Shells(t *ref.Type) []FieldShell {
	r := []FieldShell{{ref.ReqDefault, false}, {ref.ReqRequired, false}, {ref.ReqOptional, false}}
	if t.Kind.IsScalarish() && t.Kind != ref.KBinary {
		r = append(r, FieldShell{ref.ReqOptional, true})
	}
	return r
}

// IDs is the boundary field-id alphabet.
var IDs = []uint16{0, 1, 2, 63, 64, 65, 127, 128, 255, 256, 32767, 32768, 65535}

// One builds a single-field struct.
func One(t *ref.Type, sh FieldShell, id uint16) *ref.Struct {
	ft := *t
	if sh.Ptr {
		ft.Ptr = true
	}
	return &ref.Struct{Fields: []*ref.Field{{ID: id, Req: sh.Req, Type: &ft}}}
}

// Reduced14 is the 14-form reduced alphabet for multi-field structs.
func Reduced14() []*ref.Type {
	return []*ref.Type{
		Sc(ref.KBool), Sc(ref.KI8), Sc(ref.KI16), Sc(ref.KI32), Sc(ref.KI64), Sc(ref.KDouble), Sc(ref.KString), Sc(ref.KBinary), Sc(ref.KEnum),
		StPtr(leaf), StVal(leaf), ListOf(Sc(ref.KI32)), SetOf(Sc(ref.KString)), MapOf(Sc(ref.KString), Sc(ref.KI64)),
	}
}

// Reduced6 is the 6-form alphabet for three/four-field structs.
func Reduced6() []*ref.Type {
	return []*ref.Type{Sc(ref.KBool), Sc(ref.KI64), Sc(ref.KString), StPtr(leaf), ListOf(Sc(ref.KI16)), MapOf(Sc(ref.KI32), Sc(ref.KString))}
}
