//go:build verife3

package checks

import (
	"fmt"
	"reflect"

	freflect "github.com/cloudwego/frugal/internal/reflect"
)

// c08Invariant is evaluated at every scheduling point: every slot slice ever
// published by the descriptor map is bit-identical to its content at
// publication (copy-on-write really is), and every descriptor reachable
// lock-free is complete.
type c08Invariant struct {
	keys      []uintptr
	published map[uintptr][]uintptr
	violation string
}

func newC08Invariant(tracked []reflect.Type) *c08Invariant {
	inv := &c08Invariant{published: map[uintptr][]uintptr{}}
	for _, rt := range tracked {
		inv.keys = append(inv.keys, typeAddr(rt), typeAddr(reflect.PtrTo(rt)))
	}
	return inv
}

func (inv *c08Invariant) check(label string) {
	if inv.violation != "" {
		return
	}
	for _, k := range inv.keys {
		slice, items := freflect.VerifSdsSlot(k)
		if slice == 0 {
			continue
		}
		if old, ok := inv.published[slice]; ok {
			if fmt.Sprint(old) != fmt.Sprint(items) {
				inv.violation = fmt.Sprintf("a published descriptor-map slot was modified in place (at %s): %v -> %v", label, old, items)
				return
			}
		} else {
			inv.published[slice] = append([]uintptr{}, items...)
		}
		for i := 1; i < len(items); i += 2 {
			if s := freflect.VerifDescIncomplete(items[i]); s != "" {
				inv.violation = fmt.Sprintf("an incomplete descriptor is reachable lock-free (at %s): %s", label, s)
				return
			}
		}
	}
}
