package checks

import (
	"bytes"
	"fmt"
	"math"
	"reflect"

	"github.com/cloudwego/frugal/zverif/explore"
	"github.com/cloudwego/frugal/zverif/harness"
	"github.com/cloudwego/frugal/zverif/hooks"
	"github.com/cloudwego/frugal/zverif/ref"
	"github.com/cloudwego/frugal/zverif/universe"
)

// c10BaseTable: the typical declared defaults, every one different from Go's zero value.
func c10BaseTable(s *ref.Struct) *ref.Val {
	v := ref.ZeroStruct(s)
	set := func(name string, x *ref.Val) {
		for i, f := range s.Fields {
			if f.Name == name {
				v.F[i] = x
			}
		}
	}
	set("B", ref.Bool(true))
	set("I8", ref.Int(ref.KI8, 3))
	set("I16", ref.Int(ref.KI16, -300))
	set("I32", ref.Int(ref.KI32, 70000))
	set("I64", ref.Int(ref.KI64, 1<<40))
	set("D", ref.Double(1.5))
	set("S", ref.Str("dflt"))
	set("Bin", ref.Bin([]byte("bin")))
	set("E", ref.Int(ref.KEnum, 2))
	set("Def", ref.Str("default-req"))
	set("Req", ref.Int(ref.KI32, 11))
	set("DefD", ref.Double(2.5))
	return v
}

var c10Positions = []string{"top", "P", "V", "LP", "LV", "MP", "MV"}

func init() {
	harness.Register(&harness.Check{
		ID:          "C10",
		Level:       "model_checking",
		Explanation: "Bounded exhaustive enumeration (E1) over a static type whose default initialiser copies a harness-controlled table: for every optional field kind (9 non-pointer scalars/strings/binary, 2 pointers, list, map) the declared default AND the field value are both enumerated over the value alphabet (-0.0, NaN, empty/nil binary, non-nil default containers …) with all other fields at their defaults, in 7 positions (top level, pointer field, by-value field, list of pointers/values, map of pointers/values). Every execution re-registers the type (state reset), encodes with the real code (omission compared with the reference rule, header presence checked explicitly), and decodes top-level (prior content must be kept) and nested (declared defaults must appear).",
		Assumptions: []string{"go1.23.5 toolchain", "default equality is Go == on the scalar, byte equality for string/binary (DESIGN.md §2.4)"},
		Phases: func(tier universe.Tier) []*harness.Phase {
			return []*harness.Phase{{
				Name: "defaults",
				Rule: "13 optional fields x alphabet(default) x (alphabet(value) + the default itself) x 7 positions; distinct by (table, value, position) encoded bytes",
				Body: func(c *explore.C) { c10Body(c, tier) },
			}}
		},
	})
}

func c10Body(c *explore.C, tier universe.Tier) {
	// the spec (without defaults) to enumerate over
	universe.DfltTable = universe.Dflt{}
	proto := universe.DfltSpec()
	k := c.Choose(13, explore.Data, "field") // fields with ids 1..13 are the optional ones, sorted by id
	f := proto.Fields[k]
	alpha := universe.Alphabet(f.Type, tier, 1)
	if (f.Type.Kind == ref.KList || f.Type.Kind == ref.KMap) && tier == universe.Quick {
		alpha = alpha[:4]
	}
	ai := c.Choose(len(alpha)+1, explore.Data, "declared-default") // last = keep the base table's default
	bi := c.Choose(len(alpha)+1, explore.Data, "field-value")      // last = exactly the declared default
	pos := c10Positions[c.Choose(len(c10Positions), explore.Data, "position")]
	harness.Cur.Crumb(c.Choices())

	table := c10BaseTable(proto)
	if ai < len(alpha) {
		table.F[k] = alpha[ai].Clone()
	}
	universe.SetDfltTable(proto, table)
	hooks.Reset() // the next use re-registers Dflt and snapshots the new defaults
	spec := universe.DfltSpec()
	outer := universe.DfltOuterSpec(spec)
	val := table.Clone()
	if bi < len(alpha) {
		val.F[k] = alpha[bi].Clone()
	}
	val2 := table.Clone() // a second element for containers: everything at default
	how := fmt.Sprintf("field %s (id %d) declared default %s, value %s, position %s", f.Name, f.ID, table.F[k].Short(), val.F[k].Short(), pos)

	// build the value and the schema at the chosen position
	var S *ref.Struct
	var V *ref.Val
	ov := ref.ZeroStruct(outer)
	switch pos {
	case "top":
		S, V = spec, val
	case "P":
		ov.F[0] = val
	case "V":
		ov.F[1] = val
	case "LP":
		ov.F[2] = ref.List(ref.KList, val, val2)
	case "LV":
		ov.F[3] = ref.List(ref.KList, val, val2)
	case "MP":
		ov.F[4] = &ref.Val{K: ref.KMap, M: [][2]*ref.Val{{ref.Int(ref.KI32, 1), val}, {ref.Int(ref.KI32, 2), val2}}}
	case "MV":
		ov.F[5] = &ref.Val{K: ref.KMap, M: [][2]*ref.Val{{ref.Int(ref.KI32, 1), val}, {ref.Int(ref.KI32, 2), val2}}}
	}
	if pos != "top" {
		if pos != "V" {
			ov.F[1] = table.Clone() // the by-value field always exists: keep it at the defaults
		}
		S, V = outer, ov
	}

	// ---- encode
	src := universe.New(S, V)
	want := ref.Encode(S, V)
	buf := make([]byte, len(want)+64)
	r := Enc(buf, src.Interface())
	if r.Panic != nil || r.Err != nil {
		c.Fail(fmt.Sprintf("EncodeObject failed: %v [%s]", r, how), mkCase("C10", "encode-failed", S, V, nil, nil))
		return
	}
	gc, err := ref.Canonical(buf[:r.N])
	wc, _ := ref.Canonical(want)
	if err != nil || !bytes.Equal(gc, wc) {
		omitted := ref.Omitted(spec, spec.Fields[k], val.F[k])
		c.Fail(fmt.Sprintf("encoding differs from the reference; the reference rule says field %d is %s [%s]", f.ID, map[bool]string{true: "omitted", false: "written"}[omitted], how),
			mkCase("C10", "omission-mismatch", S, V, buf[:r.N], map[string]string{"reference": hx(want)}))
		return
	}
	if sz := Size(src.Interface()); sz.Panic != nil || sz.N != len(want) {
		c.Fail(fmt.Sprintf("EncodedSize %v, want %d [%s]", sz, len(want), how), mkCase("C10", "size-mismatch", S, V, nil, nil))
		return
	}
	// ---- decode: nested structs get the declared defaults, the top level keeps its prior content
	var prior *ref.Val
	if pos == "top" {
		prior = ref.ZeroStruct(spec)
		for i, ff := range spec.Fields {
			prior.F[i] = universe.Nth(ff.Type, 23+i)
		}
	}
	dv := decodeAndCompare(S, want, decodeOpts{Prior: prior, Guard: true})
	if dv.Class != "" {
		c.Fail(dv.Msg+" ["+how+"]", mkCase("C10", "decode-"+dv.Class, S, V, want, dv.detail()))
		return
	}
	harness.Cur.Outcome(harness.Hash64(want, []byte(pos), []byte(table.F[k].Canon())), pos+"/"+f.Name)
	harness.Cur.Sample(func() interface{} {
		return map[string]interface{}{"how": how, "encoded": hx(buf[:r.N]), "omitted_by_reference_rule": ref.Omitted(spec, spec.Fields[k], val.F[k])}
	})
	_ = math.NaN
	_ = reflect.TypeOf
}

// ---- phase 2: structs whose fields are all optional with non-zero defaults ----

func init() {
	ck := harness.Lookup("C10")
	old := ck.Phases
	ck.Phases = func(tier universe.Tier) []*harness.Phase {
		return append(old(tier), &harness.Phase{
			Name: "all-optional",
			Rule: "a static struct with optional fields only (non-zero declared defaults) in 6 nesting positions x every subset of fields away from its default x 1-2 container elements: a value at its defaults is a bare STOP on the wire and must decode to the declared defaults",
			Body: func(c *explore.C) { c10AllOpt(c) },
		})
	}
}

func c10AllOpt(c *explore.C) {
	pos := c.Choose(6, explore.Data, "position")
	maskA := c.Choose(16, explore.Data, "fields-away-from-default")
	maskB := c.Choose(3, explore.Data, "second-element") // 0: none, 1: all default, 2: all different
	harness.Cur.Crumb(c.Choices())
	hooks.Reset()
	d, o := universe.DfltOptSpecs()
	mkv := func(mask int) *ref.Val {
		v := ref.InitStruct(d)
		if mask&1 != 0 {
			v.F[0] = ref.Int(ref.KI32, 0) // the Go zero value differs from the default 7
		}
		if mask&2 != 0 {
			v.F[1] = ref.Str("")
		}
		if mask&4 != 0 {
			v.F[2] = ref.Double(0)
		}
		if mask&8 != 0 {
			v.F[3] = ref.List(ref.KList, ref.Int(ref.KI32, 1))
		}
		return v
	}
	a := mkv(maskA)
	var elems []*ref.Val
	elems = append(elems, a)
	if maskB == 1 {
		elems = append(elems, mkv(0))
	} else if maskB == 2 {
		elems = append(elems, mkv(15))
	}
	ov := ref.ZeroStruct(o)
	ov.F[1] = mkv(0) // the by-value field is always present
	switch pos {
	case 0:
		ov.F[0] = a
	case 1:
		ov.F[1] = a
	case 2:
		ov.F[2] = ref.List(ref.KList, elems...)
	case 3:
		ov.F[3] = ref.List(ref.KSet, elems...)
	case 4, 5:
		m := &ref.Val{K: ref.KMap}
		for i, e := range elems {
			k := ref.Int(ref.KI32, int64(i+1))
			if pos == 5 {
				k = ref.Str(fmt.Sprintf("k%d", i))
			}
			m.M = append(m.M, [2]*ref.Val{k, e})
		}
		ov.F[pos] = m
	}
	how := fmt.Sprintf("position %d, fields away from default %04b, second element %d", pos, maskA, maskB)
	want := ref.Encode(o, ov)
	buf := make([]byte, len(want)+32)
	r := Enc(buf, universe.New(o, ov).Interface())
	gc, err := ref.Canonical(buf[:r.N])
	wc, _ := ref.Canonical(want)
	if r.Panic != nil || r.Err != nil || err != nil || !bytes.Equal(gc, wc) {
		c.Fail(fmt.Sprintf("encoding differs from the reference omission rule: %v [%s]", r, how), mkCase("C10", "omission-mismatch", o, ov, buf[:r.N], map[string]string{"reference": hx(want)}))
		return
	}
	dv := decodeAndCompare(o, want, decodeOpts{Guard: true})
	if dv.Class != "" {
		c.Fail(dv.Msg+" [nested structs must be given their declared defaults even when the message carries none of their fields; "+how+"]", mkCase("C10", "decode-"+dv.Class, o, ov, want, dv.detail()))
		return
	}
	harness.Cur.Outcome(harness.Hash64(want, []byte{byte(pos)}), fmt.Sprintf("pos%d", pos))
}

// ---- C04 phase 2: size/buffer contract on types with default initialisers ----

func c04Static(c *explore.C) {
	universe.DfltTable = universe.Dflt{}
	proto := universe.DfltSpec()
	k := c.Choose(13, explore.Data, "field")
	f := proto.Fields[k]
	alpha := universe.Alphabet(f.Type, universe.Quick, 1)
	if f.Type.Kind == ref.KList || f.Type.Kind == ref.KMap {
		alpha = alpha[:4]
	}
	ai := c.Choose(len(alpha)+1, explore.Data, "declared-default")
	bi := c.Choose(len(alpha)+1, explore.Data, "field-value")
	nested := c.Bool(explore.Data, "nested")
	harness.Cur.Crumb(c.Choices())
	table := c10BaseTable(proto)
	if ai < len(alpha) {
		table.F[k] = alpha[ai].Clone()
	}
	universe.SetDfltTable(proto, table)
	hooks.Reset()
	spec := universe.DfltSpec()
	val := table.Clone()
	if bi < len(alpha) {
		val.F[k] = alpha[bi].Clone()
	}
	S, V := spec, val
	if nested {
		S = universe.DfltOuterSpec(spec)
		V = ref.ZeroStruct(S)
		V.F[1] = table.Clone()
		V.F[2] = ref.List(ref.KList, val, table.Clone())
	}
	how := fmt.Sprintf("field %s declared default %s value %s nested=%v", f.Name, table.F[k].Short(), val.F[k].Short(), nested)
	src := universe.New(S, V)
	want := ref.Encode(S, V)
	for _, a := range []struct {
		name string
		arg  interface{}
	}{{"pointer", src.Interface()}, {"value", src.Elem().Interface()}} {
		sz := Size(a.arg)
		if sz.Panic != nil || sz.N != len(want) {
			c.Fail(fmt.Sprintf("EncodedSize(%s) = %v, the encoding has %d bytes [%s]", a.name, sz, len(want), how), mkCase("C04", "size-mismatch", S, V, nil, how))
			return
		}
		w := NewWindow(len(want), 16)
		r := Enc(w.Buf(), a.arg)
		if r.Panic != nil || r.Err != nil || r.N != len(want) {
			c.Fail(fmt.Sprintf("EncodeObject(%s) into a buffer of EncodedSize bytes: %v [%s]", a.name, r, how), mkCase("C04", "sufficient-buffer-rejected", S, V, nil, how))
			return
		}
		if len(want) > 0 {
			w2 := NewWindow(len(want)-1, 16)
			if r := Enc(w2.Buf(), a.arg); r.Panic != nil || r.Err == nil {
				c.Fail(fmt.Sprintf("EncodeObject(%s) into a one-byte-short buffer: %v [%s]", a.name, r, how), mkCase("C04", "short-buffer-accepted", S, V, nil, how))
				return
			}
			if off, bad := w2.Dirty(len(want) - 1); bad {
				c.Fail(fmt.Sprintf("EncodeObject(%s) wrote past a short buffer at offset %d [%s]", a.name, off, how), mkCase("C04", "write-past-buffer", S, V, nil, how))
				return
			}
		}
	}
	harness.Cur.Outcome(harness.Hash64(want, []byte(how)), f.Name)
}
