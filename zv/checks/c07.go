package checks

import (
	"fmt"
	"os"
	"reflect"

	"github.com/cloudwego/frugal/zverif/explore"
	"github.com/cloudwego/frugal/zverif/harness"
	"github.com/cloudwego/frugal/zverif/hooks"
	"github.com/cloudwego/frugal/zverif/ref"
	"github.com/cloudwego/frugal/zverif/universe"
)

// histOp is one API call of the history alphabet; run performs it on fresh
// arguments and returns a canonical rendering of everything the call returned.
type histOp struct {
	name string
	run  func() string
	// raw performs the call and returns a renderer of its result; rendering (fmt, pooled buffers) is
	// kept out of scheduled threads because library pools would add happens-before edges between them
	raw func() func() string
}

// exec runs the operation and returns the deferred renderer.
func (o histOp) exec() func() string {
	if o.raw != nil {
		return o.raw()
	}
	s := o.run()
	return func() string { return s }
}

func obsEnc(r Res, buf []byte) string {
	if r.Panic != nil {
		return fmt.Sprintf("panic:%v", r.Panic)
	}
	if r.Err != nil {
		return "err:" + r.Err.Error()
	}
	cn, err := ref.Canonical(buf[:r.N])
	if err != nil {
		return fmt.Sprintf("n=%d malformed:%x", r.N, buf[:r.N])
	}
	return fmt.Sprintf("n=%d bytes=%x", r.N, cn)
}

func obsSize(r Res) string {
	if r.Panic != nil {
		return fmt.Sprintf("panic:%v", r.Panic)
	}
	return fmt.Sprintf("size=%d", r.N)
}

// encOps: size/encode by pointer and by value of a value of s.
func encOps(tag string, s *ref.Struct, v *ref.Val) []histOp {
	mkv := func() reflect.Value { return universe.New(s, v) }
	mk := func(name string, size, byVal bool) histOp {
		raw := func() func() string {
			v := mkv()
			var arg interface{} = v.Interface()
			if byVal {
				arg = v.Elem().Interface()
			}
			if size {
				r := Size(arg)
				return func() string { return obsSize(r) }
			}
			b := make([]byte, 512)
			r := Enc(b, arg)
			return func() string { return obsEnc(r, b) }
		}
		return histOp{name: name, raw: raw, run: func() string { return raw()() }}
	}
	return []histOp{mk(tag+":size(ptr)", true, false), mk(tag+":size(val)", true, true), mk(tag+":enc(ptr)", false, false), mk(tag+":enc(val)", false, true)}
}

// decOp: decode msg into a destination with the given prior content; the
// destination is part of the observation only when the call succeeds.
func decOp(tag string, s *ref.Struct, msg []byte, prior *ref.Val) histOp {
	raw := func() func() string {
		dst := universe.New(s, prior)
		in := append([]byte{}, msg...)
		r := Dec(in, dst.Interface())
		return func() string {
			if r.Panic != nil {
				return fmt.Sprintf("panic:%v", r.Panic)
			}
			if r.Err != nil {
				return "err:" + r.Err.Error()
			}
			return fmt.Sprintf("n=%d value=%s", r.N, universe.ReadStruct(s, dst.Elem()).Canon())
		}
	}
	return histOp{name: tag, raw: raw, run: func() string { return raw()() }}
}

// populated returns a pointer to a value of the static struct type rt with its
// pointer and slice-of-pointer fields set two levels deep (so that encoding walks nested descriptors).
func populated(rt reflect.Type, depth int) reflect.Value {
	v := reflect.New(rt)
	if depth == 0 {
		return v
	}
	e := v.Elem()
	for i := 0; i < e.NumField(); i++ {
		f := e.Field(i)
		switch {
		case f.Kind() == reflect.Ptr && f.Type().Elem().Kind() == reflect.Struct:
			if f.Type().Elem() == rt && depth < 2 {
				continue
			}
			f.Set(populated(f.Type().Elem(), depth-1))
		case f.Kind() == reflect.Slice && f.Type().Elem().Kind() == reflect.Ptr:
			f.Set(reflect.Append(f, populated(f.Type().Elem().Elem(), depth-1)))
		case f.Kind() == reflect.Int32:
			f.SetInt(3)
		}
	}
	return v
}

func staticOps(tag string, rt reflect.Type) []histOp {
	mk := func(name string, raw func() func() string) histOp {
		return histOp{name: name, raw: raw, run: func() string { return raw()() }}
	}
	return []histOp{
		mk(tag+":size(ptr)", func() func() string {
			r := Size(populated(rt, 2).Interface())
			return func() string { return obsSize(r) }
		}),
		mk(tag+":enc(val)", func() func() string {
			b := make([]byte, 256)
			r := Enc(b, populated(rt, 2).Elem().Interface())
			return func() string { return obsEnc(r, b) }
		}),
		mk(tag+":dec", func() func() string {
			dst := reflect.New(rt)
			r := Dec([]byte{8, 0, 1, 0, 0, 0, 9, 0}, dst.Interface())
			return func() string {
				if r.Panic != nil {
					return fmt.Sprintf("panic:%v", r.Panic)
				}
				if r.Err != nil {
					return "err:" + r.Err.Error()
				}
				return fmt.Sprintf("n=%d x=%d", r.N, dst.Elem().Field(0).Int())
			}
		}),
	}
}

var c07OpsCache []histOp

// c07Ops builds the operation alphabet (about 45 operations over 7 types).
func c07Ops() []histOp {
	if c07OpsCache != nil {
		return c07OpsCache
	}
	sc := universe.Sc
	D, R, O := ref.ReqDefault, ref.ReqRequired, ref.ReqOptional
	var ops []histOp

	// TM: a map with by-value struct values (decoded in place in pooled scratch) and a list of structs
	inner := mk(fd(1, D, sc(ref.KI32)), fd(2, O, ptrTo(sc(ref.KString))), fd(3, O, universe.ListOf(sc(ref.KI16))))
	tm := mk(fd(1, D, universe.MapOf(sc(ref.KI32), universe.StVal(inner))), fd(2, O, universe.ListOf(universe.StVal(inner))))
	iv := func(a int64, b string, l []int64) *ref.Val {
		v := ref.ZeroStruct(inner)
		v.F[0] = ref.Int(ref.KI32, a)
		if b != "" {
			v.F[1] = ref.Str(b)
		}
		if l != nil {
			lv := &ref.Val{K: ref.KList}
			for _, x := range l {
				lv.L = append(lv.L, ref.Int(ref.KI16, x))
			}
			v.F[2] = lv
		}
		return v
	}
	tmFull := &ref.Val{K: ref.KStruct, F: []*ref.Val{{K: ref.KMap, M: [][2]*ref.Val{{ref.Int(ref.KI32, 1), iv(9, "zz", []int64{1, 2})}, {ref.Int(ref.KI32, 2), iv(8, "yy", []int64{3})}}}, ref.NilOf(ref.KList)}}
	tmSparse := &ref.Val{K: ref.KStruct, F: []*ref.Val{{K: ref.KMap, M: [][2]*ref.Val{{ref.Int(ref.KI32, 5), iv(7, "", nil)}}}, ref.List(ref.KList, iv(1, "", nil), iv(2, "q", nil))}}
	ops = append(ops, encOps("TM.full", tm, tmFull)...)
	ops = append(ops, encOps("TM.sparse", tm, tmSparse)[2:]...)
	mFull, mSparse := ref.Encode(tm, tmFull), ref.Encode(tm, tmSparse)
	ops = append(ops, decOp("TM:dec(full)", tm, mFull, nil), decOp("TM:dec(sparse)", tm, mSparse, nil),
		decOp("TM:dec(fails in 2nd map entry)", tm, mFull[:len(mFull)-14], nil), decOp("TM:dec(sparse onto prior)", tm, mSparse, tmFull))

	// TR: required ids on both sides of a presence-word boundary, nested too
	core := mk(fd(63, R, sc(ref.KI32)), fd(64, R, sc(ref.KString)), fd(65, D, sc(ref.KI8)))
	tr := mk(fd(1, R, sc(ref.KBool)), fd(63, O, universe.StPtr(core)), fd(64, R, universe.ListOf(universe.StPtr(core))))
	wcore := c09Writer(core, -1)
	wtr := retarget(tr, core, wcore)
	wtrOpt := &ref.Struct{}
	for _, f := range wtr.Fields {
		cf := *f
		cf.Req = O
		if cf.Type.Kind.IsScalarish() {
			cf.Type = ptrTo(cf.Type)
		}
		wtrOpt.Fields = append(wtrOpt.Fields, &cf)
	}
	trv := func(topMask int, a, b int) *ref.Val {
		v := &ref.Val{K: ref.KStruct, F: make([]*ref.Val, 3)}
		if topMask&1 != 0 {
			v.F[0] = ref.Bool(true)
		}
		if topMask&2 != 0 {
			v.F[1] = c09CoreVal(wcore, a, 1)
		}
		if topMask&4 != 0 {
			v.F[2] = ref.List(ref.KList, c09CoreVal(wcore, b, 2))
		} else {
			v.F[2] = ref.NilOf(ref.KList)
		}
		return v
	}
	trOK := ref.Encode(wtrOpt, trv(7, 7, 7))
	ops = append(ops, decOp("TR:dec(complete)", tr, trOK, nil), decOp("TR:dec(top required 64 missing)", tr, ref.Encode(wtrOpt, trv(3, 7, 7)), nil),
		decOp("TR:dec(nested required 63 missing)", tr, ref.Encode(wtrOpt, trv(7, 6, 7)), nil), decOp("TR:dec(list element required 64 missing)", tr, ref.Encode(wtrOpt, trv(7, 7, 5)), nil),
		decOp("TR:dec(truncated after required fields)", tr, trOK[:len(trOK)-2], nil), decOp("TR:dec(only field 1)", tr, ref.Encode(wtrOpt, trv(1, 0, 0)), nil))
	ops = append(ops, encOps("TR", tr, ref.Decode(tr, trOK, nil, ref.DecOpts{}).V)[1:3]...)

	// TQ: required fields far from everybody else's ids (another word of any presence set)
	{
		tq := mk(fd(1, D, sc(ref.KI32)), fd(200, R, sc(ref.KI32)), fd(4000, R, sc(ref.KString)))
		tqv := &ref.Val{K: ref.KStruct, F: []*ref.Val{ref.Int(ref.KI32, 1), ref.Int(ref.KI32, 2), ref.Str("q")}}
		ops = append(ops, decOp("TQ:dec(complete)", tq, ref.Encode(tq, tqv), nil))
		wq := mk(fd(1, D, sc(ref.KI32)), fd(4000, D, sc(ref.KString)))
		ops = append(ops, decOp("TQ:dec(required 200 missing)", tq, ref.Encode(wq, &ref.Val{K: ref.KStruct, F: []*ref.Val{ref.Int(ref.KI32, 1), ref.Str("q")}}), nil))
	}
	// TU: unknown-field holder
	tu := mk(fd(1, D, sc(ref.KI32)), fd(3, O, universe.StPtr(func() *ref.Struct { s := mk(fd(1, D, sc(ref.KI8))); s.Unknown = true; return s }())))
	tu.Unknown = true
	tuv := ref.ZeroStruct(tu)
	tuv.F[0] = ref.Int(ref.KI32, 4)
	tuv.Unk = unknownSamples[1]
	in := ref.ZeroStruct(tu.Fields[1].Type.St)
	in.Unk = unknownSamples[0]
	tuv.F[1] = in
	tuMsg := ref.Encode(tu, tuv)
	plain := ref.ZeroStruct(tu)
	plain.F[0] = ref.Int(ref.KI32, 6)
	ops = append(ops, decOp("TU:dec(with unknown fields)", tu, tuMsg, nil), decOp("TU:dec(no unknown fields)", tu, ref.Encode(tu, plain), nil),
		decOp("TU:dec(unknown, truncated)", tu, tuMsg[:len(tuMsg)-3], nil), decOp("TU:dec(no unknown onto prior holder)", tu, ref.Encode(tu, plain), tuv))
	ops = append(ops, encOps("TU", tu, tuv)...)
	// more unknown fields at one level than any small inline capacity
	var manyUnk []byte
	for i := 0; i < 13; i++ {
		manyUnk = append(manyUnk, ref.WI32, 0x60, byte(i), 0, 0, 1, byte(i))
	}
	tuMany := tuv.Clone()
	tuMany.Unk = manyUnk
	ops = append(ops, decOp("TU:dec(13 unknown fields)", tu, ref.Encode(tu, tuMany), nil), decOp("TU:dec(13 unknown fields, truncated)", tu, ref.Encode(tu, tuMany)[:60], nil))
	// a second message with many unknown fields, laid out differently (other sizes, other count)
	var manyUnk2 []byte
	for i := 0; i < 11; i++ {
		manyUnk2 = append(manyUnk2, ref.WString, 0x61, byte(i), 0, 0, 0, byte(i+1))
		for k := 0; k <= i; k++ {
			manyUnk2 = append(manyUnk2, byte('a'+k))
		}
	}
	tuMany2 := tuv.Clone()
	tuMany2.F[0] = ref.Int(ref.KI32, 77)
	tuMany2.Unk = manyUnk2
	ops = append(ops, decOp("TU:dec(11 unknown strings)", tu, ref.Encode(tu, tuMany2), nil))
	// two parent types nesting ONE fixed-size struct with holder by value: what a parent's descriptor records
	// about the child must not depend on whether a sibling parent linked the child first
	{
		child := universe.LeafHolder()
		p1 := mk(fd(1, D, universe.StVal(child)))
		p2 := mk(fd(1, D, universe.StVal(child)), fd(2, D, sc(ref.KI32)))
		cv := ref.ZeroStruct(child)
		cv.F[0] = ref.Int(ref.KI16, 7)
		cv.Unk = unknownSamples[0]
		ops = append(ops, encOps("Parent1", p1, &ref.Val{K: ref.KStruct, F: []*ref.Val{cv}})[:3]...)
		ops = append(ops, encOps("Parent2", p2, &ref.Val{K: ref.KStruct, F: []*ref.Val{cv.Clone(), ref.Int(ref.KI32, 5)}})[:3]...)
	}
	// registrations that fail in different ways (each must leave no trace)
	for _, d := range badDefs() {
		switch d.class {
		case "pointer:list-element", "syntax:missing-gt", "duplicate-id", "annotation-mismatch:struct-name-in-list", "pointer:to-map", "map-key:struct-by-value":
			rt := reflect.StructOf(d.fields)
			ops = append(ops, histOp{name: "Invalid(" + d.class + "):enc", run: func() string { b := make([]byte, 64); return obsEnc(Enc(b, reflect.New(rt).Interface()), b) }})
		}
	}

	// one named Go type declared as enum in one struct and as plain i64 in another (same Go field type)
	ea := mk(fd(1, D, sc(ref.KEnum)), fd(2, D, universe.ListOf(sc(ref.KEnum))))
	eb := mk(fd(1, D, &ref.Type{Kind: ref.KI64, Named: true}), fd(2, D, universe.ListOf(&ref.Type{Kind: ref.KI64, Named: true})))
	eav := &ref.Val{K: ref.KStruct, F: []*ref.Val{ref.Int(ref.KEnum, -2), ref.List(ref.KList, ref.Int(ref.KEnum, 5))}}
	ebv := &ref.Val{K: ref.KStruct, F: []*ref.Val{ref.Int(ref.KI64, 1<<40), ref.List(ref.KList, ref.Int(ref.KI64, -7))}}
	ops = append(ops, encOps("EnumAsEnum", ea, eav)[1:3]...)
	ops = append(ops, encOps("EnumAsI64", eb, ebv)[1:3]...)
	ops = append(ops, decOp("EnumAsEnum:dec", ea, ref.Encode(ea, eav), nil), decOp("EnumAsI64:dec", eb, ref.Encode(eb, ebv), nil))

	// the recursive type with a partial default initialiser: by-value map entries decoded into pooled scratch
	dps, _ := universe.DPSpecs()
	dpv := func(setB bool) *ref.Val {
		v := ref.InitStruct(dps)
		e1, e2 := ref.InitStruct(dps), ref.InitStruct(dps)
		if setB {
			e1.F[1], e1.F[2] = ref.Str("bee"), ref.Str("cee")
			e1.F[3] = ref.List(ref.KList, ref.Int(ref.KI32, 7))
		}
		v.F[6] = &ref.Val{K: ref.KMap, M: [][2]*ref.Val{{ref.Str("a"), e1}, {ref.Str("b"), e2}}}
		v.F[7] = ref.List(ref.KList, e1.Clone(), e2.Clone())
		return v
	}
	ops = append(ops, decOp("DP:dec(entries set B)", dps, ref.Encode(dps, dpv(true)), nil), decOp("DP:dec(entries at defaults)", dps, ref.Encode(dps, dpv(false)), nil))
	ops = append(ops, encOps("DP", dps, dpv(true))[2:]...)

	// mutually nested static types: a valid pair and a pair whose A nests an invalid type
	var valid, invalid *universe.GraphPair
	for i := range universe.GraphPairs {
		p := &universe.GraphPairs[i]
		if p.AB && p.BA && p.AA && !p.BB && !p.BadA && !p.BadB && valid == nil {
			valid = p
		}
		if p.AB && p.BA && !p.AA && !p.BB && p.BadA && !p.BadB && invalid == nil {
			invalid = p
		}
	}
	ops = append(ops, staticOps("ValidA", valid.A)...)
	ops = append(ops, staticOps("ValidB", valid.B)...)
	ops = append(ops, staticOps("InvalidPairA", invalid.A)[1:]...)
	ops = append(ops, staticOps("InvalidPairB", invalid.B)...)
	c07OpsCache = ops
	return ops
}

var c07Solo map[int]string

// operations of the long-history phase (by name in the operation alphabet)
var c07LongOps = []string{"TR:dec(complete)", "TR:dec(top required 64 missing)", "TR:dec(only field 1)", "TR:dec(truncated after required fields)",
	"TU:dec(13 unknown fields)", "TU:dec(no unknown fields)", "TM:dec(full)", "TM:dec(sparse)", "TQ:dec(complete)", "TQ:dec(required 200 missing)"}

func c07LongN(tier universe.Tier) int {
	if tier == universe.Thorough {
		return 1100
	}
	return 300
}

func c07Long(c *explore.C, tier universe.Tier) {
	ops := c07Ops()
	idx := func(name string) int {
		for i, o := range ops {
			if o.name == name {
				return i
			}
		}
		panic("harness error: no operation " + name)
	}
	if c07Solo == nil {
		c07Solo = map[int]string{}
		for i, op := range ops {
			hooks.Reset()
			c07Solo[i] = op.run()
		}
	}
	x := idx(c07LongOps[c.Choose(len(c07LongOps), explore.Data, "first")])
	y := idx(c07LongOps[c.Choose(len(c07LongOps), explore.Data, "repeated")])
	z := idx(c07LongOps[c.Choose(len(c07LongOps), explore.Data, "last")])
	// every n up to the bound, then the neighbourhoods of 2^k up to 2^16 (8- and 16-bit counters and epochs);
	// the long runs only for the triples in which the first and the last call are on the same type
	ns := c07LongN(tier)
	extra := []int{511, 512, 513, 1023, 1024, 1025, 4095, 4096, 4097, 32767, 32768, 32769, 65534, 65535, 65536, 65537}
	k := c.Choose(ns+len(extra), explore.Data, "repetitions")
	n := 1 + k
	if k >= ns {
		n = extra[k-ns]
		if ops[x].name[:3] != ops[z].name[:3] || (tier != universe.Thorough && ops[y].name[:3] == ops[x].name[:3] && n > 5000) {
			explore.SkipExecution()
		}
	}
	harness.Cur.Crumb(c.Choices())
	hooks.Reset()
	hist := fmt.Sprintf("%s, then %d x %s, then %s", ops[x].name, n, ops[y].name, ops[z].name)
	bad := func(i, oi int, got string) {
		c.Fail(fmt.Sprintf("call %d (%s) of the history [%s] returns something else than the same call made first in a fresh process", i, ops[oi].name, hist),
			&harness.Case{Property: "C07", Class: "history-dependent", Type: ops[oi].name, Detail: map[string]interface{}{"history": hist, "got": clip(got), "first_call_result": clip(c07Solo[oi])}})
	}
	if got := ops[x].run(); got != c07Solo[x] {
		bad(1, x, got)
		return
	}
	for i := 0; i < n; i++ {
		if n > 2000 && i%997 != 0 && i < n-3 {
			ops[y].exec() // long runs: the repeated call's result is rendered and compared on a sample only
			continue
		}
		if got := ops[y].run(); got != c07Solo[y] {
			bad(2+i, y, got)
			return
		}
	}
	if got := ops[z].run(); got != c07Solo[z] {
		bad(2+n, z, got)
		return
	}
	harness.Cur.Evals(int64(n + 2))
	harness.Cur.Outcome(harness.Hash64([]byte(hist)), "long")
}

func init() {
	harness.Register(&harness.Check{
		ID:          "C07",
		Level:       "model_checking",
		Explanation: "Bounded exhaustive enumeration (E1 with environment choices): ALL sequences of length <=3 (thorough <=4) over an alphabet of ~45 API calls on 7 types (map with by-value struct values, required ids on both sides of a presence-word boundary, unknown-field holders, a valid and an invalid pair of mutually nested types; size/encode by pointer and by value, decodes that succeed, fail midway through a map / list / nested struct, carry unknown fields, omit fields an earlier message set), each history replayed from a reset state with every sync.Pool.Get an explicit environment choice (most recently returned object by default; older object or a new one are deviations, bound 1 quick / 2 thorough). Oracle: every call returns exactly what the same call returns as the first call after a reset (differential), and the first-call results of decodes agree with the reference decoder.",
		Assumptions: []string{"go1.23.5 toolchain", "state reset = re-initialisation of every package-level variable of internal/reflect and internal/defs generated from the working tree (overlaygen); destination contents after a FAILED decode are not part of the observation", "the shim pool's answers (any pooled object or a new one) are a superset of the real sync.Pool's single-goroutine behaviour"},
		Phases: func(tier universe.Tier) []*harness.Phase {
			bound, length := 1, 3
			if tier == universe.Thorough {
				bound, length = 2, 4
			}
			return []*harness.Phase{{
				Name:  "histories",
				Bound: bound,
				Rule:  fmt.Sprintf("all sequences of length 1..%d over the operation alphabet x pool answers with <=%d deviations; distinct by (history, observations)", length, bound),
				Body:  func(c *explore.C) { c07Body(c, length) },
			}, {
				Name: "long-histories",
				Rule: fmt.Sprintf("all histories X Y^n Z with X, Y, Z from %d decode operations (success, required-field failure, truncation failure, unknown fields, map scratch values) and every n in 1..%d plus the neighbourhoods of 2^9..2^16 (counters, epochs and free lists of up to 65 537 uses); default pool answers; every call compared with the same call made first in a fresh process", len(c07LongOps), c07LongN(tier)),
				Body: func(c *explore.C) { c07Long(c, tier) },
			}}
		},
	})
}

func c07Body(c *explore.C, maxLen int) {
	ops := c07Ops()
	if c07Solo == nil {
		// first-call results, each from a reset state (no environment choices: pools are empty)
		c07Solo = map[int]string{}
		for i, op := range ops {
			hooks.Reset()
			c07Solo[i] = op.run()
		}
	}
	// sequences of exactly n operations, n chosen first so that shorter histories are explored too
	n := 1 + c.Choose(maxLen, explore.Data, "length")
	seq := make([]int, n)
	for i := range seq {
		seq[i] = c.Choose(len(ops), explore.Data, "op")
	}
	harness.Cur.Crumb(c.Choices())
	hooks.Reset()
	var names []string
	var obs []string
	failed := false
	hooks.WithEnv(c, func() {
		for i, oi := range seq {
			names = append(names, ops[oi].name)
			got := ops[oi].run()
			obs = append(obs, got)
			if got != c07Solo[oi] && !failed {
				failed = true
				c.Fail(fmt.Sprintf("call %d (%s) returns something else than the same call made first in a fresh process", i+1, ops[oi].name),
					&harness.Case{Property: "C07", Class: "history-dependent", Type: ops[oi].name, Detail: map[string]interface{}{"history": append([]string{}, names...), "got": clip(got), "first_call_result": clip(c07Solo[oi])}})
			}
		}
	})
	if os.Getenv("VERIF_DEBUG") != "" {
		fmt.Fprintln(os.Stderr, "C07", c.Choices(), failed)
	}
	if failed {
		return
	}
	harness.Cur.Outcome(harness.Hash64([]byte(fmt.Sprint(seq)), []byte(fmt.Sprint(c.Choices()))), fmt.Sprintf("len=%d", n))
	harness.Cur.Sample(func() interface{} { return map[string]interface{}{"history": names, "observations": clipAll(obs)} })
}

func clip(s string) string {
	if len(s) > 300 {
		return s[:300] + "…"
	}
	return s
}

func clipAll(ss []string) []string {
	r := make([]string, len(ss))
	for i, s := range ss {
		r[i] = clip(s)
	}
	return r
}
