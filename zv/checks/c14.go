package checks

import (
	"fmt"
	"reflect"
	"unsafe"

	"github.com/cloudwego/frugal/zverif/explore"
	"github.com/cloudwego/frugal/zverif/harness"
	"github.com/cloudwego/frugal/zverif/hooks"
	"github.com/cloudwego/frugal/zverif/ref"
	"github.com/cloudwego/frugal/zverif/universe"
)

type c14Variant struct {
	kind   ref.Kind
	nocopy bool
	ptr    bool
	named  bool // the Go type is a named string / byte-slice type
}

var c14Variants = []c14Variant{
	{ref.KString, false, false, false}, {ref.KString, true, false, false}, {ref.KString, false, true, false}, {ref.KString, true, true, false},
	{ref.KBinary, false, false, false}, {ref.KBinary, true, false, false},
	{ref.KString, true, false, true}, {ref.KBinary, true, false, true}, {ref.KString, true, true, true},
}

var c14Lens = []int{0, 1, 2, 255, 256, 257, 2048, 5000}

// thorough: every threshold of the decoder's sub-allocator (256 direct, 2048 block) and of page-sized copies, +-1
var c14LensThorough = []int{0, 1, 2, 3, 7, 8, 9, 31, 32, 33, 255, 256, 257, 2047, 2048, 2049, 4095, 4096, 4097, 5000, 70000}

func c14Core(vs []c14Variant, ids []uint16) *ref.Struct {
	s := &ref.Struct{}
	for i, v := range vs {
		req := ref.ReqDefault
		if v.ptr {
			req = ref.ReqOptional
		}
		f := fd(ids[i], req, &ref.Type{Kind: v.kind, Ptr: v.ptr, Named: v.named})
		f.NoCopy = v.nocopy
		s.Fields = append(s.Fields, f)
	}
	s.SortFields()
	return s
}

func init() {
	harness.Register(&harness.Check{
		ID:          "C14",
		Level:       "model_checking",
		Explanation: "Bounded exhaustive enumeration (E1): struct types mixing plain and nocopy string/binary fields in value and optional-pointer form, every id order, at top level / inside a struct field / inside list elements; value lengths {0,1,2,255,256,257,2048,5000}; all wire orders. The oracle inspects the raw data pointers, lengths and capacities of the decoded fields against the address range of the input buffer, and checks write-through visibility.",
		Assumptions: []string{"go1.23.5 toolchain", "addresses are compared on the live objects (no GC move: Go's collector is non-moving)"},
		Phases: func(tier universe.Tier) []*harness.Phase {
			return []*harness.Phase{{
				Name: "nocopy-views",
				Rule: "two-field types: 9x9 variants (plain/nocopy x value/pointer x plain/named Go type) x 2 id orders x 3 nestings x 8x8 (thorough 21x21) value lengths x 2 wire orders; three-field types: 9^3 variants x 3 nestings x 8 length diagonals x 6 wire orders; distinct by (type, message)",
				Body: func(c *explore.C) { c14Body(c, tier) },
			}, {
				Name: "nocopy-nested",
				Rule: "9 container forms holding the struct with nocopy fields (map value / map key / list element, by pointer and by value, two levels) next to plain string and binary keys, values, elements and later fields x 9x9 field variants x optional third field x 2 wire orders x 3 lengths x decode once / twice into the same object; every string and byte slice of the decoded object is located: exactly the nocopy fields lie in the input",
				Body: func(c *explore.C) { c14Nested(c, tier) },
			}, {
				Name: "nocopy-defaults",
				Rule: "a static type with four nocopy fields and one plain field, all with declared defaults: each field independently carries {its default, a prefix of it, the default plus one byte, empty, another value, nothing} (6^5) x 4 positions (top level, pointer field, list element, by-value field); exact view addresses, defaults of absent fields, write-through",
				Body: func(c *explore.C) { c14Dflt(c, tier) },
			}}
		},
	})
}

func c14Body(c *explore.C, tier universe.Tier) {
	nf := 2 + c.Choose(2, explore.Data, "fields")
	vs := make([]c14Variant, nf)
	for i := range vs {
		vs[i] = c14Variants[c.Choose(len(c14Variants), explore.Data, "variant")]
	}
	ids := []uint16{1, 2, 300}[:nf]
	if nf == 2 && c.Bool(explore.Data, "id-order") {
		ids = []uint16{2, 1}
	}
	nest := c.Choose(3, explore.Data, "nest")
	lens := make([]int, nf)
	ls := c14Lens
	if tier == universe.Thorough {
		ls = c14LensThorough
	}
	if nf == 2 {
		lens[0] = ls[c.Choose(len(ls), explore.Data, "len0")]
		lens[1] = ls[c.Choose(len(ls), explore.Data, "len1")]
	} else {
		d := c.Choose(len(ls), explore.Data, "len-diagonal")
		for i := range lens {
			lens[i] = ls[(d+3*i)%len(ls)]
		}
	}
	perms := permutations(nf)
	perm := perms[c.Choose(len(perms), explore.Data, "wire-order")]
	typeless := false
	if nf == 2 && lens[0] == c14Lens[1] {
		// the tags of nocopy fields without their type descriptor ("id,req,,nocopy"): for one length of the first field
		typeless = c.Bool(explore.Data, "tags-without-type-descriptor")
	}
	harness.Cur.Crumb(c.Choices())
	hooks.Reset()

	universe.TypelessOptions = typeless
	defer func() { universe.TypelessOptions = false }()
	core := c14Core(vs, ids)
	universe.StructGoType(core)
	var outer *ref.Struct
	D := ref.ReqDefault
	switch nest {
	case 0:
		outer = core
	case 1:
		outer = mk(fd(1, D, universe.Sc(ref.KString)), fd(2, D, universe.StPtr(core)))
	case 2:
		outer = mk(fd(1, D, universe.ListOf(universe.StPtr(core))), fd(2, D, universe.Sc(ref.KBinary)))
	}
	// values: field i holds lens[i] bytes (pointer fields non-nil)
	cv := func(salt byte) *ref.Val {
		v := &ref.Val{K: ref.KStruct, F: make([]*ref.Val, len(core.Fields))}
		for i, f := range core.Fields {
			// find the variant index for this (sorted) field
			k := 0
			for j := range ids {
				if ids[j] == f.ID {
					k = j
				}
			}
			b := make([]byte, lens[k])
			for x := range b {
				b[x] = salt + byte(x*7) + byte(k)
			}
			v.F[i] = &ref.Val{K: f.Type.Kind, B: b}
		}
		return v
	}
	var val *ref.Val
	switch nest {
	case 0:
		val = cv(1)
	case 1:
		val = &ref.Val{K: ref.KStruct, F: []*ref.Val{ref.Str("outer-plain"), cv(1)}}
	case 2:
		val = &ref.Val{K: ref.KStruct, F: []*ref.Val{ref.List(ref.KList, cv(1), cv(9)), ref.Bin([]byte("outer-bin"))}}
	}
	msg := ref.EncodeWith(outer, val, func(st *ref.Struct) []int {
		if st == core {
			// perm is over declaration positions; map to sorted field indices
			o := make([]int, len(perm))
			for i, p := range perm {
				for fi, f := range core.Fields {
					if f.ID == ids[p] {
						o[i] = fi
					}
				}
			}
			return o
		}
		return nil
	})
	in := getGuard().Place(msg)
	base := uintptr(unsafe.Pointer(unsafe.SliceData(in)))
	if len(in) == 0 {
		return
	}
	lo, hi := base, base+uintptr(len(in))
	dst := universe.New(outer, nil)
	r := Dec(in, dst.Interface())
	how := fmt.Sprintf("variants=%v ids=%v nest=%d lens=%v wire-order=%v", vs, ids, nest, lens, perm)
	if r.Panic != nil || r.Err != nil || r.N != len(msg) {
		c.Fail(fmt.Sprintf("DecodeObject of a valid message: %v [%s]", r, how), mkCase("C14", "decode-failed", outer, val, msg, nil))
		return
	}
	exp := ref.Decode(outer, msg, nil, ref.DecOpts{})
	if g := universe.ReadStruct(outer, dst.Elem()); g.Canon() != exp.V.Canon() {
		c.Fail("decoded value differs from the reference ["+how+"]", mkCase("C14", "value-mismatch", outer, val, msg, nil))
		return
	}
	// locate every occurrence of the core struct in the decoded object and on the wire
	tree, _, _ := ref.ParseStruct(msg)
	var wocc []*ref.WNode
	var gocc []reflect.Value
	switch nest {
	case 0:
		wocc, gocc = []*ref.WNode{tree}, []reflect.Value{dst.Elem()}
	case 1:
		for _, f := range tree.Fields {
			if f.ID == 2 {
				wocc = append(wocc, f.V)
			}
		}
		gocc = []reflect.Value{dst.Elem().Field(outer.Fields[1].GoIdx).Elem()}
	case 2:
		for _, f := range tree.Fields {
			if f.ID == 1 {
				wocc = append(wocc, f.V.Elems...)
			}
		}
		l := dst.Elem().Field(outer.Fields[0].GoIdx)
		for i := 0; i < l.Len(); i++ {
			gocc = append(gocc, l.Index(i).Elem())
		}
	}
	if len(wocc) != len(gocc) {
		panic("harness error: occurrence mismatch")
	}
	type view struct {
		lo, hi uintptr
	}
	var views []view
	for oi, g := range gocc {
		for _, f := range core.Fields {
			var wf *ref.WField
			for i := range wocc[oi].Fields {
				if wocc[oi].Fields[i].ID == f.ID {
					wf = &wocc[oi].Fields[i]
				}
			}
			if wf == nil {
				panic("harness error: field not on the wire")
			}
			valOff := uintptr(wf.Off + 3 + 4)
			valLen := uintptr(len(wf.V.Raw))
			fv := g.Field(f.GoIdx)
			if f.Type.Ptr {
				if fv.IsNil() {
					c.Fail("optional pointer field is nil although transmitted ["+how+"]", mkCase("C14", "nil-pointer", outer, val, msg, nil))
					return
				}
				fv = fv.Elem()
			}
			var data, length, capacity uintptr
			if f.Type.Kind == ref.KString {
				s := fv.String()
				data, length, capacity = uintptr(unsafe.Pointer(unsafe.StringData(s))), uintptr(len(s)), uintptr(len(s))
			} else {
				data, length, capacity = uintptr(fv.UnsafePointer()), uintptr(fv.Len()), uintptr(fv.Cap())
			}
			name := fmt.Sprintf("field %d (%s nocopy=%v ptr=%v len=%d)", f.ID, f.Type.Kind, f.NoCopy, f.Type.Ptr, valLen)
			if f.NoCopy && valLen > 0 {
				if data != base+valOff || length != valLen {
					c.Fail(fmt.Sprintf("%s is not a view of exactly its value bytes: data at input%+d len %d, value at input+%d len %d [%s]", name, int64(data)-int64(base), length, valOff, valLen, how),
						mkCase("C14", "not-a-view", outer, val, msg, nil))
					return
				}
				if capacity != valLen {
					c.Fail(fmt.Sprintf("%s has capacity %d beyond its %d value bytes: appends/reslices reach other input bytes [%s]", name, capacity, valLen, how), mkCase("C14", "spare-capacity", outer, val, msg, nil))
					return
				}
				views = append(views, view{data, data + length})
			} else {
				// must not reference the buffer at all (zero-length nocopy included)
				if length > 0 || capacity > 0 || f.NoCopy {
					end := data + capacity
					if capacity == 0 {
						end = data + 1
					}
					if data != 0 && data < hi && lo < end {
						c.Fail(fmt.Sprintf("%s references the input buffer (data at input%+d) [%s]", name, int64(data)-int64(base), how), mkCase("C14", "aliases-input", outer, val, msg, nil))
						return
					}
				}
			}
		}
	}
	// nothing else may reference the input
	for _, e := range Extents(dst) {
		if !overlaps(e, lo, hi) {
			continue
		}
		ok := false
		for _, v := range views {
			if e.addr == v.lo && e.end() == v.hi {
				ok = true
			}
		}
		if !ok {
			c.Fail(fmt.Sprintf("decoded object references the input buffer outside nocopy fields: %s %s at input%+d size %d [%s]", e.kind, e.path, int64(e.addr)-int64(base), e.size, how),
				mkCase("C14", "aliases-input", outer, val, msg, nil))
			return
		}
	}
	// write-through: changing the viewed bytes is visible through the field and through nothing else
	before := universe.ReadStruct(outer, dst.Elem())
	for i := range in {
		in[i] ^= 0x55
	}
	after := universe.ReadStruct(outer, dst.Elem())
	expAfter := mutateViews(outer, core, before, func(b []byte) {
		for i := range b {
			b[i] ^= 0x55
		}
	})
	if after.Canon() != expAfter.Canon() {
		c.Fail("after overwriting the input, the decoded value is not (original with exactly the nocopy fields changed) ["+how+"]", mkCase("C14", "write-through", outer, val, msg, map[string]string{"got": after.Short(), "want": expAfter.Short()}))
		return
	}
	harness.Cur.Outcome(harness.Hash64(msg, []byte(outer.String())), fmt.Sprintf("nest%d/views%d", nest, len(views)))
	harness.Cur.Sample(func() interface{} {
		return map[string]interface{}{"type": outer.String(), "lens": lens, "wire_order": perm, "nocopy_views": len(views)}
	})
}

// mutateViews returns a copy of v in which every nocopy field of every core occurrence had f applied.
func mutateViews(s, core *ref.Struct, v *ref.Val, f func([]byte)) *ref.Val {
	c := v.Clone()
	var rec func(t *ref.Type, x *ref.Val)
	recStruct := func(st *ref.Struct, x *ref.Val) {
		for i, fl := range st.Fields {
			if x.F[i] == nil {
				continue
			}
			if st == core && fl.NoCopy {
				f(x.F[i].B)
			}
			rec(fl.Type, x.F[i])
		}
	}
	rec = func(t *ref.Type, x *ref.Val) {
		if x == nil {
			return
		}
		switch t.Kind {
		case ref.KStruct:
			recStruct(t.St, x)
		case ref.KList, ref.KSet:
			for _, e := range x.L {
				rec(t.Elem, e)
			}
		case ref.KMap:
			for _, e := range x.M {
				rec(t.Key, e[0])
				rec(t.Elem, e[1])
			}
		}
	}
	recStruct(s, c)
	return c
}
