package checks

import (
	"bytes"
	"fmt"

	"github.com/cloudwego/frugal/zverif/explore"
	"github.com/cloudwego/frugal/zverif/harness"
	"github.com/cloudwego/frugal/zverif/hooks"
	"github.com/cloudwego/frugal/zverif/ref"
	"github.com/cloudwego/frugal/zverif/universe"
)

// codecCase is one (type, value) point of the shared C01/C02/C04/C16 space.
type codecCase struct {
	ti, vi int
	fam    string
	s      *ref.Struct
	v      *ref.Val
}

// pickCodecCase asks the explorer for a type and a value of it.
func pickCodecCase(c *explore.C, ff *flatFamily, tier universe.Tier) *codecCase {
	ti := c.Choose(len(ff.items), explore.Data, "type")
	s := ff.items[ti]
	vals := valuesOf(s, tier)
	vi := c.Choose(len(vals), explore.Data, "value")
	harness.Cur.Crumb(c.Choices())
	return &codecCase{ti: ti, vi: vi, fam: ff.fam[ti], s: s, v: vals[vi]}
}

// enumOutOfRange reports enum values outside int32 anywhere in v (excluded by C01).
func shapeClass(cc *codecCase) string {
	f := cc.s.Fields[0]
	return cc.fam + "/" + f.Type.Kind.String()
}

func init() {
	harness.Register(&harness.Check{
		ID:          "C01",
		Level:       "model_checking",
		Explanation: "Bounded exhaustive enumeration (engine E1) of struct types assembled at run time x values; every execution runs the real EncodeObject and DecodeObject and compares the result with the reference decode of the reference encoding.",
		Assumptions: []string{"go1.23.5 toolchain", "the reference model (zv/ref) is the oracle; it is cross-validated against Apache Thrift and gopkg readers by the C02 check", "values outside the stated alphabets are not covered"},
		Phases: func(tier universe.Tier) []*harness.Phase {
			ff := flatten(codecFamilies(tier))
			return []*harness.Phase{{
				Name: "roundtrip",
				Rule: "every struct type of the families single-field over T3 x shells, boundary ids, two-field (thorough: three-field) x every value of the per-type alphabet (full product or <=2 deviations from the base value); an outcome is distinct by (type index, canonical encoded bytes); all are non-trivial (each is a different program/input pair)",
				Body: func(c *explore.C) { c01Body(c, ff, tier) },
			}}
		},
	})
}

func c01Body(c *explore.C, ff *flatFamily, tier universe.Tier) {
	cc := pickCodecCase(c, ff, tier)
	s, v := cc.s, cc.v
	hooks.Reset()
	src := universe.New(s, v)
	want := ref.Encode(s, v)
	w := NewWindow(len(want)+64, 0)
	buf := w.Buf()
	r := Enc(buf, src.Interface())
	if r.Panic != nil || r.Err != nil {
		c.Fail(fmt.Sprintf("EncodeObject failed on an accepted type/value: %v", r), mkCase("C01", "encode-failed", s, v, nil, r.String()))
		return
	}
	enc := buf[:r.N]
	dst := universe.New(s, nil)
	d := Dec(enc, dst.Interface())
	if d.Panic != nil || d.Err != nil {
		c.Fail(fmt.Sprintf("DecodeObject failed on frugal's own encoding: %v", d), mkCase("C01", "decode-failed", s, v, enc, d.String()))
		return
	}
	if d.N != r.N {
		c.Fail(fmt.Sprintf("DecodeObject consumed %d bytes, encoded length is %d", d.N, r.N), mkCase("C01", "consumed-mismatch", s, v, enc, nil))
		return
	}
	got := universe.ReadStruct(s, dst.Elem())
	exp := ref.Decode(s, want, nil, ref.DecOpts{})
	if !exp.OK {
		panic(fmt.Sprintf("harness error: reference decoder rejects the reference encoding: %v at %d for %s value %s", exp.Err, exp.ErrOff, s, v.Short()))
	}
	gc, ec := got.Canon(), exp.V.Canon()
	if gc != ec {
		c.Fail("decoded value differs from the original (after the documented normalisations)",
			mkCase("C01", "value-mismatch", s, v, enc, map[string]string{"got": got.Short(), "want": exp.V.Short()}))
		return
	}
	harness.Cur.Outcome(harness.Hash64([]byte{byte(cc.ti), byte(cc.ti >> 8), byte(cc.ti >> 16)}, []byte(gc)), shapeClass(cc))
	harness.Cur.Sample(func() interface{} {
		return map[string]string{"type": s.String(), "value": v.Short(), "encoded": hx(enc)}
	})
	_ = bytes.Equal
}
