// Package sched is engine E2's cooperative scheduler.  It lives (through the
// build overlay) inside frugal's import-path tree so that the sync / atomic
// shims compiled into frugal and the verification harness share it.
//
// During a Run exactly one managed goroutine ("thread") executes at a time.
// Every shim operation calls Point before it takes effect; the decision which
// thread continues is delegated to the Chooser supplied by the harness (the
// E1 explorer), so all interleavings at synchronisation operations are
// enumerated.  Blocking operations are modelled by disabling the thread.
//
// Race-detector builds: every function of this package is //go:norace and the
// hand-off between threads is wrapped in runtime.RaceDisable/RaceEnable, so the
// scheduler adds NO happens-before edge between threads: the race detector
// sees only the edges the shim primitives declare (mutex, pool, atomics), i.e.
// the edges the real program has.
package sched

// Chooser answers scheduling and environment decisions.
// preempt is true when picking anything but alternative 0 switches away from a
// thread that could have continued (a preemption, counted as a deviation).
type Chooser interface {
	Sched(n int, preempt bool, label string) int
	Env(n int, label string) int
}

// Waiter is a blocking condition; Ready must be a //go:norace method.
type Waiter interface{ Ready() bool }

type Thread struct {
	ID      int
	wake    chan struct{}
	joined  chan struct{} // closed when the thread ends: a real happens-before edge thread -> caller of Go
	done    bool
	blocked Waiter // non-nil while disabled
	why     string
	Panic   interface{}
	body    func()
}

type Run struct {
	ch       Chooser
	threads  []*Thread
	cur      *Thread
	finished chan struct{}
	Deadlock string
	Steps    int
	Horizon  int
	Livelock bool
	Acquires []int8             // thread ids in the order in which mutexes were acquired (an observable of the schedule)
	OnPoint  func(label string) // invariant hook evaluated at every scheduling point (must be norace)
	aborted  bool
	inHook   bool
}

var active *Run

// envOnly is the chooser for environment decisions outside scheduled runs.
var envOnly Chooser

// SetEnv installs the chooser for environment decisions (pool answers) made
// outside a scheduled run; nil restores the deterministic default (answer 0).
//
//go:norace
func SetEnv(c Chooser) { envOnly = c }

// Active reports whether the calling code runs inside a scheduled run.
//
//go:norace
func Active() bool { return active != nil }

// Env asks for an environment decision in [0,n); 0 is the default answer.
//
//go:norace
func Env(n int, label string) int {
	if n <= 1 {
		return 0
	}
	if r := active; r != nil {
		return r.ch.Env(n, label)
	}
	if envOnly != nil {
		return envOnly.Env(n, label)
	}
	return 0
}

type abortRun struct{}

// IsAbort reports whether a recovered panic value is the scheduler unwinding a
// thread of an aborted run; harness code that recovers panics must re-panic it.
func IsAbort(p interface{}) bool { _, ok := p.(abortRun); return ok }

// Point is a scheduling point: called by a managed thread before a visible operation.
//
//go:norace
func Point(label string) {
	r := active
	if r == nil {
		return
	}
	r.yield(label)
}

// Block disables the current thread until w.Ready() holds, then returns.
//
//go:norace
func Block(label string, w Waiter) {
	r := active
	if r == nil {
		if !w.Ready() {
			panic("sched: blocking operation would block forever outside a scheduled run: " + label)
		}
		return
	}
	t := r.cur
	for !w.Ready() {
		t.blocked, t.why = w, label
		r.yield(label)
	}
	t.blocked = nil
}

//go:norace
func (r *Run) enabled(buf []*Thread) []*Thread {
	en := buf[:0]
	// canonical order: the running thread first if still enabled, then ascending ids
	if c := r.cur; c != nil && !c.done && (c.blocked == nil || c.blocked.Ready()) {
		en = append(en, c)
	}
	for _, t := range r.threads {
		if t == r.cur || t.done {
			continue
		}
		if t.blocked == nil || t.blocked.Ready() {
			en = append(en, t)
		}
	}
	return en
}

//go:norace
func (r *Run) yield(label string) {
	me := r.cur
	if r.aborted {
		panic(abortRun{})
	}
	if r.inHook {
		return
	}
	r.Steps++
	if r.OnPoint != nil {
		r.inHook = true
		r.OnPoint(label)
		r.inHook = false
	}
	if r.Horizon > 0 && r.Steps > r.Horizon {
		r.Livelock = true
		r.aborted = true
		panic(abortRun{})
	}
	next := r.pick(label)
	if next == nil {
		r.Deadlock = r.describeBlocked()
		r.aborted = true
		panic(abortRun{})
	}
	if next == me {
		return
	}
	r.cur = next
	handOff(next.wake, me.wake)
	if r.aborted {
		panic(abortRun{})
	}
}

//go:norace
func (r *Run) pick(label string) *Thread {
	var buf [8]*Thread
	en := r.enabled(buf[:])
	if len(en) == 0 {
		return nil
	}
	if len(en) == 1 {
		return en[0]
	}
	preempt := en[0] == r.cur
	return en[r.ch.Sched(len(en), preempt, label)]
}

//go:norace
func (r *Run) describeBlocked() string {
	s := ""
	for _, t := range r.threads {
		if !t.done {
			s += "T" + string(rune('0'+t.ID)) + " blocked at " + t.why + "; "
		}
	}
	return s
}

//go:norace
func (r *Run) firstUnfinished() *Thread {
	for _, x := range r.threads {
		if !x.done {
			return x
		}
	}
	return nil
}

//go:norace
func (r *Run) threadMain(t *Thread) {
	waitWake(t.wake)
	defer r.threadExit(t)
	if r.aborted {
		return
	}
	t.body()
}

//go:norace
func (r *Run) threadExit(t *Thread) {
	if p := recover(); p != nil {
		if !IsAbort(p) {
			t.Panic = p
		}
	}
	t.done = true
	close(t.joined)
	var next *Thread
	if r.aborted {
		next = r.firstUnfinished()
	} else if r.firstUnfinished() != nil {
		next = r.pick("exit")
		if next == nil {
			r.Deadlock = r.describeBlocked()
			r.aborted = true
			next = r.firstUnfinished()
		}
	}
	if next == nil {
		close(r.finished) // a real happens-before edge to the caller of Go (join)
		return
	}
	r.cur = next
	wakeOnly(next.wake)
}

// Go runs the given bodies as threads 0..n-1 under the chooser and returns when
// all have finished (or the run was aborted on deadlock / livelock, in which
// case the remaining threads are unwound one at a time).
//
//go:norace
func Go(ch Chooser, horizon int, onPoint func(label string), bodies ...func()) *Run {
	if active != nil {
		panic("sched: nested Run")
	}
	r := &Run{ch: ch, finished: make(chan struct{}), Horizon: horizon, OnPoint: onPoint}
	for i := range bodies {
		r.threads = append(r.threads, &Thread{ID: i, wake: make(chan struct{}, 1), joined: make(chan struct{}), body: bodies[i]})
	}
	active = r
	for _, t := range r.threads {
		go r.threadMain(t) // goroutine creation: a real edge from the caller to each thread (fork)
	}
	// initial decision: which thread starts (a free choice)
	r.cur = nil
	first := r.pick("start")
	r.cur = first
	wakeOnly(first.wake)
	<-r.finished
	for _, t := range r.threads {
		<-t.joined
	}
	active = nil
	return r
}

// Threads exposes per-thread results.
func (r *Run) Threads() []*Thread { return r.threads }

// NoteAcquire records that the running thread acquired a lock.
//
//go:norace
func NoteAcquire() {
	if r := active; r != nil && r.cur != nil && len(r.Acquires) < 64 {
		r.Acquires = append(r.Acquires, int8(r.cur.ID))
	}
}

// CurID returns the id of the running thread (-1 outside a run).
//
//go:norace
func CurID() int {
	if r := active; r != nil && r.cur != nil {
		return r.cur.ID
	}
	return -1
}
