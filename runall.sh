#!/bin/sh
# runs every registered check's quick (or $1=thorough) command, one summary line each
T=${1:-quick}
cd /verif
for id in $(python3 -c "import json;print(' '.join(c['property_id'] for c in json.load(open('MANIFEST.json'))['checks']))"); do
  s=$(date +%s)
  out=$(./check.sh $id --tier $T 2>&1); rc=$?
  e=$(( $(date +%s) - s ))
  echo "$id rc=$rc ${e}s $(echo "$out" | grep -c '^VIOLATION') violations; $(echo "$out" | grep -m1 'HARNESS-ERROR' | cut -c1-160)"
done
