package universe

// R is the recursive type of the depth checks (C15) and of the recursive
// round trips: every way of nesting a struct inside itself.
type R struct {
	S  *R           `frugal:"1,optional,R"`
	L  []*R         `frugal:"2,optional,list<R>"`
	T  []*R         `frugal:"3,optional,set<R>"`
	MV map[int32]*R `frugal:"4,optional,map<i32:R>"`
	MK map[*R]int32 `frugal:"5,optional,map<R:i32>"`
	LL [][]*R       `frugal:"6,optional,list<list<R>>"`
	X  int32        `frugal:"7,optional,i32"`
}

// RU is R's sibling that does not know field ids >= 90: nested data placed
// under id 99 is skipped as an unknown field.
type RU struct {
	X int32 `frugal:"7,optional,i32"`
}

// Named is a named struct (same shape as the leaf struct) for struct-name
// matching and package-qualified annotations.
type Named struct {
	A int32   `frugal:"1,default,i32"`
	B *string `frugal:"2,optional,string"`
}

// Emb is embedded (anonymous field) into generated structs as a decoy: its
// tagged field must never reach the wire.
type Emb struct {
	EX int32 `frugal:"78,default,i32"`
}

// NamedStr / NamedBytes: named string and byte-slice types (e.g. type TraceID string).
type NamedStr string
type NamedBytes []byte

// DP is a recursive type with a PARTIAL default initialiser (as generated code has: only
// fields that declare a default are assigned) including a non-nil container default.
type DP struct {
	A     int32         `frugal:"1,optional,i32"`
	B     string        `frugal:"2,optional,string"`
	C     *string       `frugal:"3,optional,string"`
	L     []int32       `frugal:"4,optional,list<i32>"`
	Kids  []*DP         `frugal:"5,optional,list<DP>"`
	Next  *DP           `frugal:"6,optional,DP"`
	ByVal map[string]DP `frugal:"7,optional,map<string:DP>"`
	Vals  []DP          `frugal:"8,optional,list<DP>"`
}

func (p *DP) InitDefault() {
	p.A = 5
	p.L = []int32{1, 2}
}

// DPOuter reaches DP from a different top-level type.
type DPOuter struct {
	P *DP           `frugal:"1,optional,DP"`
	M map[int32]*DP `frugal:"2,optional,map<i32:DP>"`
}

// RWide is recursive AND wide: 24 variable-size fields precede the link to the next level.
type RWide struct {
	F01  string   `frugal:"1,optional,string"`
	F02  string   `frugal:"2,optional,string"`
	F03  string   `frugal:"3,optional,string"`
	F04  string   `frugal:"4,optional,string"`
	F05  string   `frugal:"5,optional,string"`
	F06  string   `frugal:"6,optional,string"`
	F07  string   `frugal:"7,optional,string"`
	F08  string   `frugal:"8,optional,string"`
	F09  string   `frugal:"9,optional,string"`
	F10  string   `frugal:"10,optional,string"`
	F11  string   `frugal:"11,optional,string"`
	F12  string   `frugal:"12,optional,string"`
	F13  []int32  `frugal:"13,optional,list<i32>"`
	F14  []int32  `frugal:"14,optional,list<i32>"`
	F15  []string `frugal:"15,optional,list<string>"`
	F16  []byte   `frugal:"16,optional,binary"`
	F17  string   `frugal:"17,optional,string"`
	F18  string   `frugal:"18,optional,string"`
	F19  string   `frugal:"19,optional,string"`
	F20  string   `frugal:"20,optional,string"`
	F21  string   `frugal:"21,optional,string"`
	F22  string   `frugal:"22,optional,string"`
	F23  string   `frugal:"23,optional,string"`
	F24  string   `frugal:"24,optional,string"`
	Next *RWide   `frugal:"30,optional,RWide"`
	Tail string   `frugal:"31,optional,string"`
}

// NCD has nocopy fields AND declared defaults: a decoder shortcut for "the wire value equals the
// default" must still make nocopy fields views of the input.
type NCD struct {
	S  string  `frugal:"1,default,string,nocopy"`
	B  []byte  `frugal:"2,default,binary,nocopy"`
	PS *string `frugal:"3,optional,string,nocopy"`
	O  string  `frugal:"4,optional,string,nocopy"`
	P  string  `frugal:"5,default,string"`
}

// NCDDefaults are the values (*NCD).InitDefault assigns, by field id.
var NCDDefaults = map[uint16]string{1: "dflt-S", 2: "dflt-B", 3: "dflt-PS", 4: "dflt-O", 5: "dflt-P"}

func (p *NCD) InitDefault() {
	p.S = "dflt-S"
	p.B = []byte("dflt-B")
	s := "dflt-PS"
	p.PS = &s
	p.O = "dflt-O"
	p.P = "dflt-P"
}

// NCDOuter nests NCD where the decoder creates structs.
type NCDOuter struct {
	N *NCD   `frugal:"1,optional,NCD"`
	L []*NCD `frugal:"2,default,list<NCD>"`
	V NCD    `frugal:"3,default,NCD"`
}

// Deep1..Deep6: a chain of six distinct struct types nested through every kind of edge (pointer
// field, map value, by-value field, list element): descriptors built "up to a depth" must still be
// complete when a value reaches the last level.
type Deep6 struct {
	X int32  `frugal:"1,default,i32"`
	S string `frugal:"2,default,string"`
}
type Deep5 struct {
	N *Deep6   `frugal:"1,optional,Deep6"`
	L []*Deep6 `frugal:"2,default,list<Deep6>"`
}
type Deep4 struct {
	V Deep5 `frugal:"1,default,Deep5"`
}
type Deep3 struct {
	M map[string]*Deep4 `frugal:"1,default,map<string:Deep4>"`
}
type Deep2 struct {
	N *Deep3 `frugal:"1,optional,Deep3"`
	X int32  `frugal:"2,default,i32"`
}
type Deep1 struct {
	N *Deep2 `frugal:"1,optional,Deep2"`
}

// DeepValue returns a value of the chain that reaches every level.
func DeepValue() *Deep1 {
	return &Deep1{N: &Deep2{X: 2, N: &Deep3{M: map[string]*Deep4{"k": {V: Deep5{N: &Deep6{X: 6, S: "six"}, L: []*Deep6{{X: 7, S: "seven"}, {X: 8}}}}}}}}
}
