package checks

import (
	"bytes"
	"fmt"
	"reflect"

	"github.com/cloudwego/frugal/zverif/explore"
	"github.com/cloudwego/frugal/zverif/harness"
	"github.com/cloudwego/frugal/zverif/hooks"
	"github.com/cloudwego/frugal/zverif/ref"
	"github.com/cloudwego/frugal/zverif/universe"
)

// badDef is a struct definition outside the supported language: a list of Go fields with tags.
type badDef struct {
	class  string
	fields []reflect.StructField
}

func sfield(i int, t reflect.Type, tag string) reflect.StructField {
	return reflect.StructField{Name: fmt.Sprintf("F%d", i), Type: t, Tag: reflect.StructTag(tag)}
}

var (
	rtI32    = reflect.TypeOf(int32(0))
	rtStr    = reflect.TypeOf("")
	rtNamed  = reflect.TypeOf(universe.Named{})
	rtI32s   = reflect.TypeOf([]int32(nil))
	rtGood   = reflect.StructOf([]reflect.StructField{sfield(0, rtI32, `frugal:"1,default,i32"`), sfield(1, rtStr, `frugal:"2,optional,string"`)})
	badCache []badDef
)

func badDefs() []badDef {
	if badCache != nil {
		return badCache
	}
	var out []badDef
	one := func(class string, t reflect.Type, tag string) {
		out = append(out, badDef{class, []reflect.StructField{sfield(0, rtI32, `frugal:"1,default,i32"`), sfield(1, t, tag)}})
	}
	// 1. Go kinds Thrift cannot express
	for _, t := range []reflect.Type{reflect.TypeOf(uint(0)), reflect.TypeOf(uint8(0)), reflect.TypeOf(uint16(0)), reflect.TypeOf(uint32(0)), reflect.TypeOf(uint64(0)),
		reflect.TypeOf(float32(0)), reflect.TypeOf([2]int32{}), reflect.TypeOf(make(chan int)), reflect.TypeOf(func() {}), reflect.TypeOf((*interface{})(nil)).Elem(),
		reflect.TypeOf(complex128(0)), reflect.TypeOf(uintptr(0))} {
		one("unsupported-kind:"+t.Kind().String(), t, `frugal:"2,default"`)
	}
	for _, t := range []reflect.Type{reflect.TypeOf(uint32(0)), reflect.TypeOf(float32(0))} {
		one("unsupported-kind-annotated:"+t.Kind().String(), t, `frugal:"2,default,i32"`)
		one("unsupported-list-element:"+t.Kind().String(), reflect.SliceOf(t), `frugal:"2,default,list<i32>"`)
		one("unsupported-map-value:"+t.Kind().String(), reflect.MapOf(rtI32, t), `frugal:"2,default,map<i32:i32>"`)
		one("unsupported-map-key:"+t.Kind().String(), reflect.MapOf(t, rtI32), `frugal:"2,default,map<i32:i32>"`)
	}
	// 2. slice without a list/set annotation
	one("slice-without-annotation", rtI32s, `frugal:"2,default"`)
	one("slice-in-map-without-annotation", reflect.MapOf(rtI32, rtI32s), `frugal:"2,default"`)
	// 3. annotation contradicting the Go type
	one("annotation-mismatch:scalar", rtI32, `frugal:"2,default,i64"`)
	one("annotation-mismatch:string-as-i32", rtStr, `frugal:"2,default,i32"`)
	one("annotation-mismatch:element", rtI32s, `frugal:"2,default,list<i64>"`)
	one("annotation-mismatch:key", reflect.MapOf(rtI32, rtStr), `frugal:"2,default,map<i64:string>"`)
	one("annotation-mismatch:value", reflect.MapOf(rtI32, rtStr), `frugal:"2,default,map<i32:i32>"`)
	one("annotation-mismatch:struct-name", rtNamed, `frugal:"2,default,Other"`)
	one("annotation-mismatch:struct-name-in-list", reflect.SliceOf(reflect.PtrTo(rtNamed)), `frugal:"2,default,list<Other>"`)
	one("annotation-mismatch:container-for-scalar", rtI32, `frugal:"2,default,list<i32>"`)
	one("annotation-mismatch:scalar-for-container", rtI32s, `frugal:"2,default,i32"`)
	one("annotation-mismatch:map-for-list", rtI32s, `frugal:"2,default,map<i32:i32>"`)
	// 4. broken syntax
	one("syntax:missing-gt", rtI32s, `frugal:"2,default,list<i32"`)
	one("syntax:missing-lt", rtI32s, `frugal:"2,default,list i32>"`)
	one("syntax:comma-for-colon", reflect.MapOf(rtI32, rtStr), `frugal:"2,default,map<i32,string>"`)
	one("syntax:missing-colon", reflect.MapOf(rtI32, rtStr), `frugal:"2,default,map<i32 string>"`)
	one("syntax:map-missing-gt", reflect.MapOf(rtI32, rtStr), `frugal:"2,default,map<i32:string"`)
	one("syntax:premature-end", rtI32s, `frugal:"2,default,list<"`)
	one("syntax:premature-end-map", reflect.MapOf(rtI32, rtStr), `frugal:"2,default,map<"`)
	one("syntax:nested-missing-gt", reflect.SliceOf(rtI32s), `frugal:"2,default,list<list<i32>"`)
	// 5. invalid map keys
	one("map-key:struct-by-value", reflect.MapOf(rtNamed, rtI32), `frugal:"2,default,map<Named:i32>"`)
	one("map-key:pointer-to-scalar", reflect.MapOf(reflect.PtrTo(rtI32), rtI32), `frugal:"2,default,map<i32:i32>"`)
	one("map-key:array", reflect.MapOf(reflect.TypeOf([2]int8{}), rtI32), `frugal:"2,default"`)
	// 6. non-struct pointers where only values are allowed
	one("pointer:list-element", reflect.SliceOf(reflect.PtrTo(rtI32)), `frugal:"2,default,list<i32>"`)
	one("pointer:map-value", reflect.MapOf(rtI32, reflect.PtrTo(rtStr)), `frugal:"2,default,map<i32:string>"`)
	one("pointer:default-requiredness-field", reflect.PtrTo(rtI32), `frugal:"2,default,i32"`)
	one("pointer:required-field", reflect.PtrTo(rtStr), `frugal:"2,required,string"`)
	// 7. pointers to pointers and to containers
	one("pointer:to-pointer-struct", reflect.PtrTo(reflect.PtrTo(rtNamed)), `frugal:"2,optional,Named"`)
	one("pointer:to-pointer-scalar", reflect.PtrTo(reflect.PtrTo(rtI32)), `frugal:"2,optional,i32"`)
	one("pointer:to-list", reflect.PtrTo(rtI32s), `frugal:"2,optional,list<i32>"`)
	one("pointer:to-map", reflect.PtrTo(reflect.MapOf(rtI32, rtStr)), `frugal:"2,optional,map<i32:string>"`)
	one("pointer:to-binary", reflect.PtrTo(reflect.TypeOf([]byte(nil))), `frugal:"2,optional,binary"`)
	one("pointer:list-of-pointer-to-pointer", reflect.SliceOf(reflect.PtrTo(reflect.PtrTo(rtNamed))), `frugal:"2,optional,list<Named>"`)
	// 7b. the same Go-type-level classes with the type descriptor omitted (rejection must not depend on how the tag is spelled)
	for _, tag := range []string{`frugal:"2,default"`, `thrift:"hits,2"`} {
		sfx := "(typeless:" + tag[:6] + ")"
		one("map-key:struct-by-value"+sfx, reflect.MapOf(rtNamed, rtI32), tag)
		one("map-key:pointer-to-scalar"+sfx, reflect.MapOf(reflect.PtrTo(rtI32), rtStr), tag)
		one("pointer:map-value"+sfx, reflect.MapOf(rtStr, reflect.PtrTo(rtI32)), tag)
		one("pointer:map-value-nested"+sfx, reflect.MapOf(rtI32, reflect.MapOf(rtStr, reflect.PtrTo(reflect.TypeOf(false)))), tag)
		one("pointer:default-requiredness-field"+sfx, reflect.PtrTo(rtI32), tag)
		one("pointer:to-pointer-scalar"+sfx, reflect.PtrTo(reflect.PtrTo(rtI32)), tag)
		one("pointer:to-map"+sfx, reflect.PtrTo(reflect.MapOf(rtI32, rtStr)), tag)
		one("unsupported-map-value"+sfx, reflect.MapOf(rtI32, reflect.TypeOf(uint32(0))), tag)
		one("unsupported-map-key"+sfx, reflect.MapOf(reflect.TypeOf(uint16(0)), rtStr), tag)
	}
	one("pointer:required-field(typeless)", reflect.PtrTo(rtStr), `frugal:"2,required"`)
	// 8. duplicate ids
	out = append(out, badDef{"duplicate-id", []reflect.StructField{sfield(0, rtI32, `frugal:"7,default,i32"`), sfield(1, rtStr, `frugal:"7,default,string"`)}})
	out = append(out, badDef{"duplicate-id-frugal-thrift", []reflect.StructField{sfield(0, rtI32, `frugal:"7,default,i32"`), sfield(1, rtStr, `thrift:"x,7,default,string"`)}})
	for _, pq := range [][2]int{{0, 19}, {3, 17}, {17, 18}, {16, 24}} {
		var fs []reflect.StructField
		for i := 0; i < 25; i++ {
			id := 10 + i
			if i == pq[1] {
				id = 10 + pq[0]
			}
			fs = append(fs, sfield(i, rtI32, fmt.Sprintf(`frugal:"%d,default,i32"`, id)))
		}
		out = append(out, badDef{fmt.Sprintf("duplicate-id-in-wide-struct:%d=%d", pq[0], pq[1]), fs})
	}
	// 9. ids
	for _, id := range []string{"abc", "", "-1", "+1", "0x10", "65536", "1.5", "99999999999999999999"} {
		one("bad-id:"+id, rtI32, `frugal:"`+id+`,default,i32"`)
	}
	// 10. requiredness
	for _, r := range []string{"mandatory", "Required", "OPTIONAL", ""} {
		one("bad-requiredness:"+r, rtI32, `frugal:"2,`+r+`,i32"`)
	}
	// 11. options
	one("option:nocopy-on-i32", rtI32, `frugal:"2,default,i32,nocopy"`)
	one("option:nocopy-on-list", reflect.SliceOf(rtStr), `frugal:"2,default,list<string>,nocopy"`)
	one("option:duplicated", rtStr, `frugal:"2,default,string,nocopy,nocopy"`)
	one("option:unknown", rtStr, `frugal:"2,default,string,zerocopy"`)
	// 12. empty and name-only tags
	one("tag:empty", rtI32, `frugal:""`)
	one("tag:thrift-name-only", rtI32, `thrift:"name"`)
	badCache = out
	return out
}

var c13Positions = []string{"top", "field*", "field", "list*", "mapval*", "mapkey*", "depth2", "list", "mapkey*+structval", "mapkey*+listval", "mapval*+structkey"}

// c13Place builds the outer type that reaches bad at the given position.
func c13Place(bad reflect.Type, pos string) reflect.Type {
	x := sfield(0, rtI32, `frugal:"1,default,i32"`)
	switch pos {
	case "top":
		return bad
	case "field*":
		return reflect.StructOf([]reflect.StructField{x, sfield(1, reflect.PtrTo(bad), `frugal:"2,optional,S"`)})
	case "field":
		return reflect.StructOf([]reflect.StructField{x, sfield(1, bad, `frugal:"2,default,S"`)})
	case "list*":
		return reflect.StructOf([]reflect.StructField{x, sfield(1, reflect.SliceOf(reflect.PtrTo(bad)), `frugal:"2,default,list<S>"`)})
	case "list":
		return reflect.StructOf([]reflect.StructField{x, sfield(1, reflect.SliceOf(bad), `frugal:"2,default,set<S>"`)})
	case "mapval*":
		return reflect.StructOf([]reflect.StructField{x, sfield(1, reflect.MapOf(rtStr, reflect.PtrTo(bad)), `frugal:"2,default,map<string:S>"`)})
	case "mapkey*":
		return reflect.StructOf([]reflect.StructField{x, sfield(1, reflect.MapOf(reflect.PtrTo(bad), rtI32), `frugal:"2,default,map<S:i32>"`)})
	case "mapkey*+structval":
		return reflect.StructOf([]reflect.StructField{x, sfield(1, reflect.MapOf(reflect.PtrTo(bad), reflect.PtrTo(rtGood)), `frugal:"2,default,map<S:G>"`)})
	case "mapkey*+listval":
		return reflect.StructOf([]reflect.StructField{x, sfield(1, reflect.MapOf(reflect.PtrTo(bad), rtI32s), `frugal:"2,default,map<S:list<i32>>"`)})
	case "mapval*+structkey":
		return reflect.StructOf([]reflect.StructField{x, sfield(1, reflect.MapOf(reflect.PtrTo(rtGood), reflect.PtrTo(bad)), `frugal:"2,default,map<G:S>"`)})
	case "depth2":
		mid := reflect.StructOf([]reflect.StructField{sfield(0, reflect.SliceOf(reflect.MapOf(rtI32, reflect.PtrTo(bad))), `frugal:"1,default,list<map<i32:S>>"`)})
		return reflect.StructOf([]reflect.StructField{x, sfield(1, reflect.PtrTo(mid), `frugal:"2,optional,S"`)})
	}
	panic(pos)
}

type c13Obs struct {
	rejected bool
	text     string
	class    string
	msg      string
}

// c13Call runs one entry point on a fresh zero value of rt and classifies the result.
func c13Call(entry int, rt reflect.Type) c13Obs {
	v := reflect.New(rt)
	before := append([]byte{}, rawBytes(v.UnsafePointer(), int(rt.Size()))...)
	switch entry {
	case 0: // EncodedSize: must panic with an ordinary (non-runtime) panic
		r := Size(v.Interface())
		switch {
		case r.Panic == nil:
			return c13Obs{class: "accepted", msg: fmt.Sprintf("EncodedSize returns %d for an unsupported definition", r.N)}
		case r.Runtime:
			return c13Obs{class: "runtime-panic", msg: fmt.Sprintf("EncodedSize panics with a runtime error (memory fault / nil dereference / index): %v", r.Panic)}
		}
		return c13Obs{rejected: true, text: fmt.Sprint(r.Panic)}
	case 1: // EncodeObject: error, buffer untouched
		w := NewWindow(64, 16)
		r := Enc(w.Buf(), v.Interface())
		switch {
		case r.Panic != nil:
			cls := "panic"
			if r.Runtime {
				cls = "runtime-panic"
			}
			return c13Obs{class: cls, msg: fmt.Sprintf("EncodeObject panics instead of returning an error: %v", r.Panic)}
		case r.Err == nil:
			return c13Obs{class: "accepted", msg: fmt.Sprintf("EncodeObject accepts an unsupported definition (n=%d)", r.N)}
		}
		if off, bad := w.Dirty(0); bad {
			return c13Obs{class: "bytes-produced", msg: fmt.Sprintf("EncodeObject wrote to the buffer (offset %d) before rejecting", off)}
		}
		return c13Obs{rejected: true, text: r.Err.Error()}
	default: // DecodeObject: error, destination untouched
		msg := []byte{8, 0, 1, 0, 0, 0, 5, 0}
		r := Dec(msg, v.Interface())
		switch {
		case r.Panic != nil:
			cls := "panic"
			if r.Runtime {
				cls = "runtime-panic"
			}
			return c13Obs{class: cls, msg: fmt.Sprintf("DecodeObject panics instead of returning an error: %v", r.Panic)}
		case r.Err == nil:
			return c13Obs{class: "accepted", msg: "DecodeObject accepts an unsupported definition"}
		}
		if !bytes.Equal(before, rawBytes(v.UnsafePointer(), int(rt.Size()))) {
			return c13Obs{class: "bytes-stored", msg: "DecodeObject stored data into the destination before rejecting"}
		}
		return c13Obs{rejected: true, text: r.Err.Error()}
	}
}

var c13Entry = []string{"EncodedSize", "EncodeObject", "DecodeObject"}

func init() {
	harness.Register(&harness.Check{
		ID:          "C13",
		Level:       "model_checking",
		Explanation: "Bounded exhaustive enumeration (E1): every invalid definition class of the statement (unsupported Go kinds, slice without annotation, contradicting annotation, broken syntax, invalid map keys, non-struct pointers, pointers to pointers/containers, duplicate/non-numeric/out-of-range ids, unknown requiredness/options, empty tags) instantiated at 8 positions x all 6 orders of the three entry points (each called twice), interleaved with a valid type; generated families of mutually nested static types (all digraphs on two nodes, optional invalid field per node) in every first-use order of length <=3 through every entry point; and non-struct arguments. All from a reset state.",
		Assumptions: []string{"go1.23.5 toolchain", "leniencies of the tag parser not named in the statement (trailing tokens, substring keywords, leading-zero ids) are not in the must-reject set", "the reference tag parser must reject every enumerated invalid definition too (else harness error)"},
		Phases: func(tier universe.Tier) []*harness.Phase {
			return []*harness.Phase{
				{Name: "invalid-definitions", Rule: "~75 invalid definitions x 11 positions x 6 entry-point orders; distinct by (definition, position, order)", Body: func(c *explore.C) { c13Defs(c, tier) }},
				{Name: "nested-families", Rule: "64 generated pairs of mutually nested static types x all call sequences of length <=3 (thorough: <=5) over {A,B} x 3 entry points per call; a type must be rejected iff an invalid definition is reachable from it, in every order", Body: func(c *explore.C) { c13Graphs(c, tier) }},
				{Name: "siblings", Rule: "invalid definitions (one per rejection site in the quick tier, all in the thorough tier) x 4 ways of nesting the invalid struct x 6 ways of nesting a valid sibling struct in the same outer definition x declaration order x id order x entry point x sibling used before or not; the sibling must behave as in a process that never saw the invalid definition", Body: func(c *explore.C) { c13Siblings(c, tier) }},
				{Name: "id-sweep", Rule: "all ordered pairs of ids from the boundary set {0, 2^k-1, 2^k, 2^k+1 (k<=16), ...} (about 60 values; thorough: also every id 0..200) x 4 field layouts x top-level/nested; equal ids must be rejected by all three entry points, distinct ids must be accepted and travel under their own id", Body: func(c *explore.C) { c13IDSweep(c, tier) }},
				{Name: "arguments", Rule: "non-struct arguments x 3 entry points x position in a history with a valid type", Body: func(c *explore.C) { c13Args(c, tier) }},
			}
		},
	})
}

func c13Defs(c *explore.C, tier universe.Tier) {
	defs := badDefs()
	di := c.Choose(len(defs), explore.Data, "definition")
	pos := c13Positions[c.Choose(len(c13Positions), explore.Data, "position")]
	order := permutations(3)[c.Choose(6, explore.Data, "entry-order")]
	harness.Cur.Crumb(c.Choices())
	hooks.Reset()
	def := defs[di]
	bad := reflect.StructOf(def.fields)
	if _, err := ref.ParseTags(bad); err == nil {
		panic("harness error: the reference tag parser accepts the invalid definition " + def.class + ": " + bad.String())
	}
	rt := c13Place(bad, pos)
	if pos != "top" {
		// the wrapper itself is fine: with a good struct in place of the bad one it is accepted
		good := c13Place(rtGood, pos)
		if r := Enc(make([]byte, 64), reflect.New(good).Interface()); r.Err != nil || r.Panic != nil {
			panic(fmt.Sprintf("harness error: wrapper %s rejected: %v", good, r))
		}
	}
	cs := func(class, m string) *harness.Case {
		return &harness.Case{Property: "C13", Class: class, Type: def.class + " @ " + pos, GoType: rt.String(), Detail: m}
	}
	first := map[int]string{}
	// each entry point in the chosen order, then all again: the rejection must be the same on every call
	for round := 0; round < 2; round++ {
		for _, e := range order {
			o := c13Call(e, rt)
			if !o.rejected {
				c.Fail(fmt.Sprintf("%s: %s [%s at %s, call %d of order %v]", c13Entry[e], o.msg, def.class, pos, round*3+1, order), cs(o.class, o.msg))
				return
			}
			if round == 0 {
				first[e] = o.text
			} else if first[e] != o.text {
				c.Fail(fmt.Sprintf("%s rejects differently on a later call: %q then %q [%s at %s]", c13Entry[e], first[e], o.text, def.class, pos), cs("inconsistent-rejection", o.text))
				return
			}
		}
		// a valid type in the same history still works
		gv := reflect.New(rtGood)
		gv.Elem().Field(0).SetInt(7)
		buf := make([]byte, 64)
		r := Enc(buf, gv.Interface())
		if r.Err != nil || r.Panic != nil || !bytes.Equal(buf[:r.N], []byte{8, 0, 1, 0, 0, 0, 7, 11, 0, 2, 0, 0, 0, 0, 0}) {
			c.Fail(fmt.Sprintf("a valid type misbehaves after an invalid one was rejected: %v %x", r, buf[:r.N]), cs("valid-type-affected", ""))
			return
		}
	}
	harness.Cur.Evals(8)
	harness.Cur.Outcome(harness.Hash64([]byte(rt.String()), []byte{byte(order[0]), byte(order[1])}), def.class)
	harness.Cur.Sample(func() interface{} {
		return map[string]interface{}{"class": def.class, "position": pos, "go_type": rt.String(), "rejection": first[1]}
	})
}

func c13Graphs(c *explore.C, tier universe.Tier) {
	pairs := universe.GraphPairs
	pi := c.Choose(len(pairs), explore.Data, "pair")
	maxHist := 3
	if tier == universe.Thorough {
		maxHist = 5
	}
	n := 1 + c.Choose(maxHist, explore.Data, "history-length")
	type call struct{ node, entry int }
	var hist []call
	for i := 0; i < n; i++ {
		k := c.Choose(6, explore.Data, "call")
		hist = append(hist, call{k / 3, k % 3})
	}
	harness.Cur.Crumb(c.Choices())
	hooks.Reset()
	p := pairs[pi]
	// reachability of an invalid definition
	reachBadA := p.BadA || (p.AB && p.BadB)
	reachBadB := p.BadB || (p.BA && p.BadA)
	desc := fmt.Sprintf("pair %d edges(AA=%v AB=%v BA=%v BB=%v) badA=%v badB=%v", pi, p.AA, p.AB, p.BA, p.BB, p.BadA, p.BadB)
	var trace []string
	for i, cl := range hist {
		rt, mustReject := p.A, reachBadA
		if cl.node == 1 {
			rt, mustReject = p.B, reachBadB
		}
		o := c13Call(cl.entry, rt)
		trace = append(trace, fmt.Sprintf("%s(%s)=>rejected:%v", c13Entry[cl.entry], rt.Name(), o.rejected))
		cs := &harness.Case{Property: "C13", Class: o.class, Type: desc, GoType: rt.String(), Detail: trace}
		if mustReject && !o.rejected {
			if o.class == "accepted" {
				cs.Class = "invalid-accepted-after-history"
			}
			c.Fail(fmt.Sprintf("call %d: %s [%s; history %v]", i+1, o.msg, desc, trace), cs)
			return
		}
		if !mustReject && o.rejected {
			cs.Class = "valid-rejected"
			c.Fail(fmt.Sprintf("call %d: a valid type is rejected (%s) [%s; history %v]", i+1, o.text, desc, trace), cs)
			return
		}
	}
	harness.Cur.Outcome(harness.Hash64([]byte(desc), []byte(fmt.Sprint(hist))), fmt.Sprintf("rejectA=%v rejectB=%v", reachBadA, reachBadB))
	harness.Cur.Sample(func() interface{} { return map[string]interface{}{"pair": desc, "history": trace} })
}

func c13Args(c *explore.C, tier universe.Tier) {
	var pp **universe.Named
	args := []struct {
		name string
		v    interface{}
	}{
		{"untyped nil", nil}, {"int", 5}, {"*int", new(int)}, {"map", map[string]int{"a": 1}}, {"slice", []int32{1}}, {"string", "x"},
		{"**struct", pp}, {"non-nil **struct", func() interface{} { p := &universe.Named{}; return &p }()}, {"[]struct", []universe.Named{{}}}, {"func", func() {}},
	}
	ai := c.Choose(len(args), explore.Data, "argument")
	entry := c.Choose(3, explore.Data, "entry")
	warm := c.Bool(explore.Data, "after-valid-use")
	harness.Cur.Crumb(c.Choices())
	hooks.Reset()
	if warm {
		Enc(make([]byte, 64), &universe.Named{A: 1})
	}
	a := args[ai]
	cs := func(class, m string) *harness.Case {
		return &harness.Case{Property: "C13", Class: class, Type: "argument " + a.name, Detail: m}
	}
	for round := 0; round < 2; round++ {
		switch entry {
		case 0:
			r := Size(a.v)
			if r.Panic == nil || r.Runtime {
				c.Fail(fmt.Sprintf("EncodedSize(%s): want an ordinary panic, got %v", a.name, r), cs("argument-not-rejected", r.String()))
				return
			}
		case 1:
			w := NewWindow(32, 8)
			r := Enc(w.Buf(), a.v)
			_, dirty := w.Dirty(0)
			if r.Panic != nil || r.Err == nil || dirty {
				c.Fail(fmt.Sprintf("EncodeObject(%s): want an error and an untouched buffer, got %v dirty=%v", a.name, r, dirty), cs("argument-not-rejected", r.String()))
				return
			}
		case 2:
			r := Dec([]byte{8, 0, 1, 0, 0, 0, 5, 0}, a.v)
			if r.Panic != nil || r.Err == nil {
				c.Fail(fmt.Sprintf("DecodeObject(%s): want an error, got %v", a.name, r), cs("argument-not-rejected", r.String()))
				return
			}
		}
	}
	// nil *struct destination
	if entry == 2 {
		var np *universe.Named
		if r := Dec([]byte{0}, np); r.Panic != nil || r.Err == nil {
			c.Fail(fmt.Sprintf("DecodeObject(nil *struct): want an error, got %v", r), cs("argument-not-rejected", r.String()))
			return
		}
	}
	harness.Cur.Outcome(harness.Hash64([]byte(a.name), []byte{byte(entry)}), c13Entry[entry])
}
