// Package sched is engine E2's cooperative scheduler.  It lives (through the
// build overlay) inside frugal's import-path tree so that the sync / atomic
// shims compiled into frugal and the verification harness share it.
//
// During a Run exactly one managed goroutine ("thread") executes at a time.
// Every shim operation calls Point before it takes effect; the decision which
// thread continues is delegated to the Chooser supplied by the harness (the
// E1 explorer), so all interleavings at synchronisation operations are
// enumerated.  Blocking operations are modelled by disabling the thread.
package sched

import (
	"fmt"
)

// Chooser answers scheduling and environment decisions.
// preempt is true when picking anything but alternative 0 switches away from a
// thread that could have continued (a preemption, counted as a deviation).
type Chooser interface {
	Sched(n int, preempt bool, label string) int
	Env(n int, label string) int
}

type Thread struct {
	ID      int
	wake    chan struct{}
	done    bool
	blocked func() bool // non-nil while disabled: reports whether the thread may proceed now
	why     string
	Panic   interface{}
	Stack   string
}

type Run struct {
	ch        Chooser
	threads   []*Thread
	cur       *Thread
	finished  chan struct{}
	Deadlock  string
	Steps     int
	Horizon   int
	Livelock  bool
	Trace     []string
	KeepTrace bool
	OnPoint   func(r *Run, label string) // invariant hook evaluated at every scheduling point
	aborted   bool
	inHook    bool
}

var active *Run

// envOnly is the chooser for environment decisions outside scheduled runs.
var envOnly Chooser

// SetEnv installs the chooser for environment decisions (pool answers) made
// outside a scheduled run; nil restores the deterministic default (answer 0).
func SetEnv(c Chooser) { envOnly = c }

// Active reports whether the calling code runs inside a scheduled run.
func Active() bool { return active != nil }

// Env asks for an environment decision in [0,n); 0 is the default answer.
func Env(n int, label string) int {
	if n <= 1 {
		return 0
	}
	if r := active; r != nil {
		return r.ch.Env(n, label)
	}
	if envOnly != nil {
		return envOnly.Env(n, label)
	}
	return 0
}

type abortRun struct{}

// Point is a scheduling point: called by a managed thread before a visible operation.
func Point(label string) {
	r := active
	if r == nil {
		return
	}
	r.yield(label)
}

// Block disables the current thread until ready() holds, then returns.  ready
// is evaluated only while no other thread runs.
func Block(label string, ready func() bool) {
	r := active
	if r == nil {
		if !ready() {
			panic("sched: blocking operation would block forever outside a scheduled run: " + label)
		}
		return
	}
	t := r.cur
	for !ready() {
		t.blocked, t.why = ready, label
		r.yield(label)
	}
	t.blocked = nil
}

func (r *Run) enabled() []*Thread {
	var en []*Thread
	// canonical order: the running thread first if still enabled, then ascending ids
	if c := r.cur; c != nil && !c.done && (c.blocked == nil || c.blocked()) {
		en = append(en, c)
	}
	for _, t := range r.threads {
		if t == r.cur || t.done {
			continue
		}
		if t.blocked == nil || t.blocked() {
			en = append(en, t)
		}
	}
	return en
}

func (r *Run) yield(label string) {
	me := r.cur
	if r.aborted {
		panic(abortRun{})
	}
	if r.inHook {
		return
	}
	r.Steps++
	if r.OnPoint != nil {
		r.inHook = true
		r.OnPoint(r, label)
		r.inHook = false
	}
	if r.Horizon > 0 && r.Steps > r.Horizon {
		r.Livelock = true
		r.abort()
		panic(abortRun{})
	}
	next := r.pick(label)
	if next == nil {
		// nobody can run
		r.Deadlock = r.describeBlocked()
		r.abort()
		panic(abortRun{})
	}
	if r.KeepTrace {
		r.Trace = append(r.Trace, fmt.Sprintf("T%d@%s->T%d", me.ID, label, next.ID))
	}
	if next == me {
		return
	}
	r.cur = next
	next.wake <- struct{}{}
	<-me.wake
	if r.aborted {
		panic(abortRun{})
	}
}

func (r *Run) pick(label string) *Thread {
	en := r.enabled()
	if len(en) == 0 {
		return nil
	}
	if len(en) == 1 {
		return en[0]
	}
	preempt := en[0] == r.cur
	return en[r.ch.Sched(len(en), preempt, label)]
}

func (r *Run) describeBlocked() string {
	s := ""
	for _, t := range r.threads {
		if !t.done {
			s += fmt.Sprintf("T%d blocked at %s; ", t.ID, t.why)
		}
	}
	return s
}

func (r *Run) abort() { r.aborted = true }

// IsAbort reports whether a recovered panic value is the scheduler unwinding a
// thread of an aborted run; harness code that recovers panics must re-panic it.
func IsAbort(p interface{}) bool { _, ok := p.(abortRun); return ok }

// Go runs the given bodies as threads 0..n-1 under the chooser and returns when
// all have finished (or the run was aborted on deadlock / livelock, in which
// case the remaining threads are unwound one at a time).
func Go(ch Chooser, horizon int, keepTrace bool, onPoint func(r *Run, label string), bodies ...func()) *Run {
	if active != nil {
		panic("sched: nested Run")
	}
	r := &Run{ch: ch, finished: make(chan struct{}), Horizon: horizon, KeepTrace: keepTrace, OnPoint: onPoint}
	for i := range bodies {
		r.threads = append(r.threads, &Thread{ID: i, wake: make(chan struct{}, 1)})
	}
	active = r
	for i, b := range bodies {
		t, body := r.threads[i], b
		go func() {
			<-t.wake
			defer func() {
				if p := recover(); p != nil {
					if !IsAbort(p) {
						t.Panic = p
					}
				}
				t.done = true
				var next *Thread
				if r.aborted {
					for _, x := range r.threads {
						if !x.done {
							next = x
							break
						}
					}
				} else {
					left := false
					for _, x := range r.threads {
						if !x.done {
							left = true
						}
					}
					if left {
						next = r.pick("exit")
						if next == nil {
							r.Deadlock = r.describeBlocked()
							r.abort()
							for _, x := range r.threads {
								if !x.done {
									next = x
									break
								}
							}
						}
					}
				}
				if next == nil {
					close(r.finished)
					return
				}
				r.cur = next
				next.wake <- struct{}{}
			}()
			if r.aborted {
				return
			}
			body()
		}()
	}
	// initial decision: which thread starts (a free choice)
	r.cur = nil
	first := r.pick("start")
	r.cur = first
	first.wake <- struct{}{}
	<-r.finished
	active = nil
	return r
}

// Threads exposes per-thread results.
func (r *Run) Threads() []*Thread { return r.threads }

// Cur returns the id of the running thread (-1 outside a run).
func CurID() int {
	if r := active; r != nil && r.cur != nil {
		return r.cur.ID
	}
	return -1
}
