#!/bin/sh
# usage: seedstore.sh <agent out dir> <name e.g. C11-a> <caught_by list> <notes>
# Stores a confirmed seeded change under /verif/seeded/<name>/ with patch, demo and meta.
S=$1; N=$2; C=$3; NOTE=$4
D=/verif/seeded/$N
mkdir -p "$D" && cp "$S/patch.diff" "$D/" && cp "$S"/*_test.go "$D/" 2>/dev/null
python3 - "$S/meta.json" "$D/meta.json" "$C" "$NOTE" <<'PY'
import json,sys
m=json.load(open(sys.argv[1]))
m['origin']='independent sub-agent given only the property text and a scratch worktree'
m['confirmed_by_me']={'ran':'/verif/seedcheck.sh (scratch worktree: patch applies; repository tests pass with the change; demonstration passes without and fails with the change)','result':'confirmed'}
m['caught_by']=[c for c in sys.argv[3].split(',') if c]
m['notes']=sys.argv[4]
json.dump(m,open(sys.argv[2],'w'),indent=1)
PY
echo stored $D
