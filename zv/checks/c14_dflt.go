package checks

import (
	"fmt"
	"reflect"
	"unsafe"

	"github.com/cloudwego/frugal/zverif/explore"
	"github.com/cloudwego/frugal/zverif/harness"
	"github.com/cloudwego/frugal/zverif/hooks"
	"github.com/cloudwego/frugal/zverif/ref"
	"github.com/cloudwego/frugal/zverif/universe"
)

// Phase "nocopy-defaults": a static type with nocopy fields and declared defaults.  Every field
// independently carries {its default, a prefix of it, the default plus a byte, "", another value, nothing}.

var c14DfltChoices = []string{"default", "prefix", "longer", "empty", "other", "absent"}

func c14DfltValue(id uint16, choice string) (string, bool) {
	d := universe.NCDDefaults[id]
	switch choice {
	case "default":
		return d, true
	case "prefix":
		return d[:4], true
	case "longer":
		return d + "x", true
	case "empty":
		return "", true
	case "other":
		return "OTHER" + d[5:], true
	}
	return "", false
}

func c14Dflt(c *explore.C, tier universe.Tier) {
	var ch [5]int
	for i := range ch {
		ch[i] = c.Choose(len(c14DfltChoices), explore.Data, "field-value")
	}
	pos := c.Choose(4, explore.Data, "position") // 0 top, 1 pointer field, 2 list element (second of two), 3 by-value field
	harness.Cur.Crumb(c.Choices())
	hooks.Reset()
	// the NCD struct body with the offsets of every present value
	var body []byte
	off := map[uint16]int{}
	want := map[uint16]string{}
	for i := 0; i < 5; i++ {
		id := uint16(i + 1)
		v, present := c14DfltValue(id, c14DfltChoices[ch[i]])
		if !present {
			continue
		}
		body = append(body, ref.WString, 0, byte(id), 0, 0, 0, byte(len(v)))
		off[id] = len(body)
		want[id] = v
		body = append(body, v...)
	}
	body = append(body, 0)
	var msg []byte
	shift := 0
	switch pos {
	case 0:
		msg = body
	case 1:
		msg = append([]byte{ref.WStruct, 0, 1}, body...)
		shift = 3
		msg = append(msg, 0)
	case 2:
		msg = []byte{ref.WList, 0, 2, ref.WStruct, 0, 0, 0, 2, 0} // first element: empty struct
		shift = len(msg)
		msg = append(msg, body...)
		msg = append(msg, 0)
	case 3:
		msg = append([]byte{ref.WStruct, 0, 3}, body...)
		shift = 3
		msg = append(msg, 0)
	}
	how := fmt.Sprintf("values=%v position=%d", []string{c14DfltChoices[ch[0]], c14DfltChoices[ch[1]], c14DfltChoices[ch[2]], c14DfltChoices[ch[3]], c14DfltChoices[ch[4]]}, pos)
	cs := func(class string) *harness.Case {
		return &harness.Case{Property: "C14", Class: class, Type: "NCD (nocopy fields with declared defaults)", Input: hx(msg), Detail: how}
	}
	in := getGuard().Place(msg)
	base := uintptr(unsafe.Pointer(unsafe.SliceData(in)))
	lo, hi := base, base+uintptr(len(in))
	var target *universe.NCD
	var r Res
	if pos == 0 {
		target = &universe.NCD{}
		r = Dec(in, target)
	} else {
		o := &universe.NCDOuter{}
		r = Dec(in, o)
		if r.Err == nil && r.Panic == nil {
			switch pos {
			case 1:
				target = o.N
			case 2:
				if len(o.L) == 2 {
					target = o.L[1]
				}
			case 3:
				target = &o.V
			}
		}
	}
	if r.Panic != nil || r.Err != nil || r.N != len(msg) || target == nil {
		c.Fail(fmt.Sprintf("DecodeObject of a valid message: %v [%s]", r, how), cs("decode-failed"))
		return
	}
	type leaf struct {
		id     uint16
		nocopy bool
		set    bool
		data   uintptr
		n, cp  int
		val    string
	}
	str := func(id uint16, nocopy bool, s string) leaf {
		return leaf{id, nocopy, true, uintptr(unsafe.Pointer(unsafe.StringData(s))), len(s), len(s), s}
	}
	leaves := []leaf{str(1, true, target.S), {2, true, target.B != nil, uintptr(unsafe.Pointer(unsafe.SliceData(target.B))), len(target.B), cap(target.B), string(target.B)}}
	if target.PS != nil {
		leaves = append(leaves, str(3, true, *target.PS))
	} else {
		leaves = append(leaves, leaf{id: 3, nocopy: true})
	}
	leaves = append(leaves, str(4, true, target.O), str(5, false, target.P))
	for _, l := range leaves {
		w, present := want[l.id]
		name := fmt.Sprintf("field %d", l.id)
		if !present {
			// absent: decoder-created structs carry the declared default, the caller's top-level object is left alone
			exp := universe.NCDDefaults[l.id]
			if pos == 0 {
				exp = ""
			}
			if l.val != exp {
				c.Fail(fmt.Sprintf("%s absent from the message holds %q, want %q [%s]", name, l.val, exp, how), cs("value-mismatch"))
				return
			}
			if l.n > 0 && l.data < hi && lo < l.data+uintptr(l.n) {
				c.Fail(fmt.Sprintf("%s is absent from the message but references the input [%s]", name, how), cs("aliases-input"))
				return
			}
			continue
		}
		if l.val != w || !l.set && l.id == 3 {
			c.Fail(fmt.Sprintf("%s holds %q, transmitted %q [%s]", name, l.val, w, how), cs("value-mismatch"))
			return
		}
		if l.n == 0 {
			continue
		}
		inside := l.data < hi && lo < l.data+uintptr(l.n)
		if l.nocopy {
			if l.data != base+uintptr(shift+off[l.id]) || l.cp != l.n {
				c.Fail(fmt.Sprintf("nocopy %s (value %q) is not a view of exactly its value bytes: data at input%+d cap %d, value at input+%d len %d [%s]", name, w, int64(l.data)-int64(base), l.cp, shift+off[l.id], l.n, how), cs("not-a-view"))
				return
			}
		} else if inside {
			c.Fail(fmt.Sprintf("%s is not nocopy but references the input [%s]", name, how), cs("aliases-input"))
			return
		}
	}
	// write-through
	for i := range in {
		in[i] ^= 0x20
	}
	flip := func(s string) string {
		b := []byte(s)
		for i := range b {
			b[i] ^= 0x20
		}
		return string(b)
	}
	got := map[uint16]string{1: target.S, 2: string(target.B), 4: target.O, 5: target.P}
	if target.PS != nil {
		got[3] = *target.PS
	}
	for id, w := range want {
		exp := w
		if id != 5 {
			exp = flip(w)
		}
		if got[id] != exp {
			c.Fail(fmt.Sprintf("after overwriting the input field %d reads %q, want %q [%s]", id, got[id], exp, how), cs("write-through"))
			return
		}
	}
	harness.Cur.Outcome(harness.Hash64(msg, []byte{byte(pos)}), fmt.Sprintf("position%d", pos))
	_ = reflect.TypeOf
}
