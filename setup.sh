#!/bin/sh
# Builds the framework once from files on disk (offline) so that the Go build
# cache is warm for the per-check rebuilds.
set -e
export GOFLAGS=-mod=mod GOPROXY=off GOSUMDB=off GOTOOLCHAIN=local
V=${VERIF_DIR:-/verif}
R=${VERIF_REPO:-/repo}
T=$(mktemp -d "${TMPDIR:-/var/tmp}/verif-setup-XXXXXX")
trap 'rm -rf "$T"' EXIT INT TERM
cd "$V/zv"
go build -o "$T/overlaygen" ./cmd/overlaygen
"$T/overlaygen" -repo "$R" -verif "$V" -out "$T"
go build -tags verif -overlay "$T/overlay.json" -o "$T/verifcheck" ./cmd/verifcheck
go build -o "$T/repro" ./cmd/repro
go build -o "$T/verifplain" ./cmd/verifplain
go build -tags "verif verife3" -overlay "$T/overlay.json" -o "$T/verifcheck3" ./cmd/verifcheck
go build -race -gcflags=all=-d=checkptr=0 -tags "verif verife3" -overlay "$T/overlay.json" -o "$T/verifcheck-race" ./cmd/verifcheck
echo "setup ok"
