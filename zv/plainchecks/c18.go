package plainchecks

import (
	"fmt"
	"reflect"
	"runtime"
	"testing"

	"github.com/cloudwego/frugal"
	"github.com/cloudwego/frugal/zverif/explore"
	"github.com/cloudwego/frugal/zverif/harness"
	"github.com/cloudwego/frugal/zverif/ref"
	"github.com/cloudwego/frugal/zverif/universe"
)

var c18Types []*ref.Struct

// c18Family: every single-field type of T3 (all registered encode routines and both fall-backs), the
// depth-4 sample, by-value and pointer structs, unknown-field holders.
func c18Family() []*ref.Struct {
	if c18Types != nil {
		return c18Types
	}
	for _, t := range universe.T(3) {
		c18Types = append(c18Types, universe.One(t, universe.FieldShell{Req: ref.ReqDefault}, 1))
	}
	sc := universe.Sc
	u := &ref.Struct{Unknown: true, Fields: []*ref.Field{{ID: 1, Req: ref.ReqDefault, Type: sc(ref.KI32)}, {ID: 2, Req: ref.ReqOptional, Type: universe.ListOf(universe.StPtr(universe.LeafHolder()))}}}
	c18Types = append(c18Types, u)
	return c18Types
}

var c18Salt int

func init() {
	harness.Register(&harness.Check{
		ID:          "C18",
		Level:       "model_checking",
		Explanation: "Bounded exhaustive enumeration (E1) on the UNMODIFIED build, one goroutine, GOMAXPROCS=1: every single-field type of T3 (so every registered map/list encode routine and both generic fall-backs), by-value and pointer structs, unknown-field holders x values {empty, small, 100+ elements} x first-use orders {pointer first, value first then pointer, size first, an empty value first (then the very first call on the non-empty value is measured)}; after one warm-up call testing.AllocsPerRun(40, ...) must be 0 for EncodedSize(ptr) and EncodeObject(sufficient buffer, nil, ptr), and for rounds alternating these calls with calls on a second used type.",
		Assumptions: []string{"go1.23.5 toolchain and its escape analysis", "allocation counts are measured with runtime.MemStats (testing.AllocsPerRun) on a quiescent single goroutine"},
		Phases: func(tier universe.Tier) []*harness.Phase {
			return []*harness.Phase{{
				Name:           "allocations",
				OncePerProcess: true,
				Rule:           "T3 single-field types x 3 value sizes x 4 first-use orders on fresh Go types; distinct by (type, value size, order)",
				Body:           func(c *explore.C) { c18Body(c, tier) },
			}}
		},
	})
}

func c18Values(s *ref.Struct) []*ref.Val {
	t := s.Fields[0].Type
	al := universe.Alphabet(t, universe.Quick, 0)
	pick := []*ref.Val{al[0], al[len(al)/2], al[len(al)-1]}
	// the last alphabet value of containers is the 1100-element one; make sure a 100+ one is in
	var out []*ref.Val
	for _, v := range pick {
		sv := &ref.Val{K: ref.KStruct, F: []*ref.Val{v}}
		if len(s.Fields) > 1 {
			sv.F = append(sv.F, universe.Nth(s.Fields[1].Type, 2))
			sv.Unk = []byte{ref.WI16, 0x7f, 0xf0, 0x12, 0x34}
		}
		out = append(out, sv)
	}
	return out
}

func c18Body(c *explore.C, tier universe.Tier) {
	fam := c18Family()
	ti := c.Choose(len(fam), explore.Data, "type")
	// the empty-value-first order is explored first for every type, with the non-empty values in turn: type-level
	// caches cannot be reset in the unmodified build, so only the first executions on a container type see it fresh
	order := (c.Choose(4, explore.Data, "first-use-order") + 3) % 4
	vi := c.Choose(3, explore.Data, "value-size")
	harness.Cur.Crumb(c.Choices())
	// a fresh Go type per execution: the first-use order matters
	c18Salt++
	universe.Salt = fmt.Sprintf("c18-%d-%d", ti, c18Salt)
	proto := fam[ti]
	ft := *proto.Fields[0].Type
	s := &ref.Struct{Unknown: proto.Unknown}
	for _, f := range proto.Fields {
		cf := *f
		cf.GoIdx, cf.Name = 0, ""
		s.Fields = append(s.Fields, &cf)
	}
	_ = ft
	universe.StructGoType(s)
	universe.Salt = ""
	v := c18Values(s)[vi]
	src := universe.New(s, v)
	ptr := src.Interface()
	val := src.Elem().Interface()
	buf := make([]byte, len(ref.Encode(s, v))+16)
	switch order {
	case 0:
		frugal.EncodeObject(buf, nil, ptr)
	case 1:
		frugal.EncodeObject(buf, nil, val)
		frugal.EncodeObject(buf, nil, ptr)
	case 2:
		frugal.EncodedSize(ptr)
	case 3:
		// the type is first used with an EMPTY value (a codec warm-up); the measured value is then seen
		// for the first time by the measured call itself: "once a type has been used" - whatever the value
		if vi == 0 {
			return
		}
		e := universe.New(s, c18Values(s)[0]).Interface()
		frugal.EncodedSize(e)
		frugal.EncodeObject(buf, nil, e)
		c18TouchMaps(src) // (the runtime allocates bookkeeping on the first iteration of a map object: not the library's)
		m0 := c18Mallocs()
		frugal.EncodedSize(ptr)
		m1 := c18Mallocs()
		frugal.EncodeObject(buf, nil, ptr)
		m2 := c18Mallocs()
		if m1 != m0 || m2 != m1 {
			c.Fail(fmt.Sprintf("the first call on a non-empty value of a type already used (with an empty value) allocates: EncodedSize %d, EncodeObject %d objects [value size %d]", m1-m0, m2-m1, vi),
				&harness.Case{Property: "C18", Class: "first-nonempty-allocates", Type: s.String(), Value: v.Short(), GoType: universe.GoSource(s)})
			return
		}
	}
	// warm-up of both calls
	n := frugal.EncodedSize(ptr)
	if _, err := frugal.EncodeObject(buf, nil, ptr); err != nil || n > len(buf) {
		panic(fmt.Sprintf("harness error: encode failed for %s: %v", s, err))
	}
	how := fmt.Sprintf("value size %d, first-use order %d", vi, order)
	if a := testing.AllocsPerRun(40, func() { frugal.EncodedSize(ptr) }); a != 0 {
		c.Fail(fmt.Sprintf("EncodedSize allocates %.1f objects per call after first use [%s]", a, how), &harness.Case{Property: "C18", Class: "size-allocates", Type: s.String(), Value: v.Short(), GoType: universe.GoSource(s)})
		return
	}
	if a := testing.AllocsPerRun(40, func() { frugal.EncodeObject(buf, nil, ptr) }); a != 0 {
		c.Fail(fmt.Sprintf("EncodeObject allocates %.1f objects per call after first use [%s]", a, how), &harness.Case{Property: "C18", Class: "encode-allocates", Type: s.String(), Value: v.Short(), GoType: universe.GoSource(s)})
		return
	}
	// alternating with another (already used) type must not allocate either: nothing may be cached per "last type"
	other := &universe.Named{A: 1}
	obuf := make([]byte, 64)
	frugal.EncodedSize(other)
	frugal.EncodeObject(obuf, nil, other)
	if a := testing.AllocsPerRun(40, func() {
		frugal.EncodedSize(ptr)
		frugal.EncodedSize(other)
		frugal.EncodeObject(buf, nil, ptr)
		frugal.EncodeObject(obuf, nil, other)
	}); a != 0 {
		c.Fail(fmt.Sprintf("alternating size/encode calls on two used types allocate %.1f objects per round [%s]", a, how), &harness.Case{Property: "C18", Class: "alternation-allocates", Type: s.String(), Value: v.Short(), GoType: universe.GoSource(s)})
		return
	}
	if ti == 0 && vi == 0 {
		// once per first-use order: the recursive type with the same container types populated at several levels
		if msg := c18Recursive(); msg != "" {
			c.Fail(msg, &harness.Case{Property: "C18", Class: "recursive-allocates", Type: "universe.R (recursive)"})
			return
		}
		if msg := c18Rotation(ptr, buf); msg != "" {
			c.Fail(msg, &harness.Case{Property: "C18", Class: "rotation-allocates", Type: "rotation over used static types"})
			return
		}
	}
	harness.Cur.Outcome(harness.Hash64([]byte(s.String()), []byte{byte(vi), byte(order)}), s.Fields[0].Type.Kind.String())
	harness.Cur.Sample(func() interface{} {
		return map[string]interface{}{"type": s.String(), "value": v.Short(), "order": order}
	})
}

// c18Recursive: values of the recursive type in which one map / list type is populated at several levels.
func c18Recursive() string {
	var mk func(d int) *universe.R
	mk = func(d int) *universe.R {
		r := &universe.R{X: int32(d)}
		if d == 0 {
			return r
		}
		r.S = mk(d - 1)
		r.L = []*universe.R{mk(d - 1), mk(0)}
		r.T = []*universe.R{mk(d - 1)}
		r.MV = map[int32]*universe.R{1: mk(d - 1), 2: mk(0)}
		r.MK = map[*universe.R]int32{mk(d - 1): 1}
		r.LL = [][]*universe.R{{mk(d - 1)}, {}}
		return r
	}
	for _, d := range []int{1, 2, 3} {
		v := mk(d)
		n := frugal.EncodedSize(v)
		buf := make([]byte, n+8)
		if _, err := frugal.EncodeObject(buf, nil, v); err != nil {
			return "encode of the recursive type failed: " + err.Error()
		}
		if a := testing.AllocsPerRun(20, func() { frugal.EncodedSize(v) }); a != 0 {
			return fmt.Sprintf("EncodedSize of the recursive type nested %d levels allocates %.1f objects per call", d, a)
		}
		if a := testing.AllocsPerRun(20, func() { frugal.EncodeObject(buf, nil, v) }); a != 0 {
			return fmt.Sprintf("EncodeObject of the recursive type nested %d levels allocates %.1f objects per call", d, a)
		}
	}
	return ""
}

// c18Rotation: a server answers many message kinds in turn.  Rounds over N already-used types
// (N = 2..all valid generated static types, ~80) must not allocate: no bounded "recently used" cache
// may stand between a call and the descriptor of a used type.
func c18Rotation(first interface{}, firstBuf []byte) string {
	vals := []interface{}{first, &universe.Named{A: 1}, universe.DeepValue(), &universe.R{X: 1, S: &universe.R{X: 2}}}
	for _, p := range universe.GraphPairs {
		reachBadA := p.BadA || (p.AB && p.BadB)
		reachBadB := p.BadB || (p.BA && p.BadA)
		if !reachBadA {
			vals = append(vals, reflect.New(p.A).Interface())
		}
		if !reachBadB {
			vals = append(vals, reflect.New(p.B).Interface())
		}
	}
	bufs := make([][]byte, len(vals))
	for i, v := range vals {
		bufs[i] = make([]byte, frugal.EncodedSize(v)+8)
		if i == 0 {
			bufs[i] = firstBuf
		}
		if _, err := frugal.EncodeObject(bufs[i], nil, v); err != nil {
			return fmt.Sprintf("encode of a valid static type failed: %T: %v", v, err)
		}
	}
	for _, n := range []int{2, 3, 4, 5, 6, 8, 9, 16, 17, 32, 33, 64, 65, len(vals)} {
		if n > len(vals) {
			continue
		}
		a := testing.AllocsPerRun(5, func() {
			for i := 0; i < n; i++ {
				frugal.EncodedSize(vals[i])
				frugal.EncodeObject(bufs[i], nil, vals[i])
			}
		})
		if a != 0 {
			return fmt.Sprintf("a round of size/encode calls over %d already-used types allocates %.1f objects", n, a)
		}
	}
	return ""
}

var c18ms runtime.MemStats

func c18Mallocs() uint64 {
	runtime.ReadMemStats(&c18ms)
	return c18ms.Mallocs
}

// c18TouchMaps iterates every map reachable from v once.
func c18TouchMaps(v reflect.Value) {
	switch v.Kind() {
	case reflect.Ptr:
		if !v.IsNil() {
			c18TouchMaps(v.Elem())
		}
	case reflect.Struct:
		for i := 0; i < v.NumField(); i++ {
			c18TouchMaps(v.Field(i))
		}
	case reflect.Slice:
		if v.Type().Elem().Kind() != reflect.Uint8 {
			for i := 0; i < v.Len(); i++ {
				c18TouchMaps(v.Index(i))
			}
		}
	case reflect.Map:
		it := v.MapRange()
		for it.Next() {
			c18TouchMaps(it.Key())
			c18TouchMaps(it.Value())
		}
	}
}
