//go:build verif

// Package hooks is the harness' view of the verif build of frugal: state
// reset, environment (pool) choices and the cooperative scheduler.
package hooks

import (
	freflect "github.com/cloudwego/frugal/internal/reflect"
	"github.com/cloudwego/frugal/internal/verifshim/sched"
	"github.com/cloudwego/frugal/zverif/explore"
)

// Reset puts frugal into the state of a fresh process (caches, pools, scratch).
func Reset() { freflect.VerifReset() }

// ResetLight resets pools and type caches but keeps the descriptor map: a fresh
// process for every type that has never been used.
func ResetLight() { freflect.VerifResetLight() }

// chooser adapts the E1 explorer to the scheduler's Chooser interface.
type chooser struct{ c *explore.C }

//go:norace
func (a chooser) Sched(n int, preempt bool, label string) int {
	if preempt {
		return a.c.Choose(n, explore.Dev, "sched:"+label)
	}
	return a.c.Choose(n, explore.Data, "sched:"+label)
}

//go:norace
func (a chooser) Env(n int, label string) int { return a.c.Choose(n, explore.Dev, "env:"+label) }

// WithEnv routes environment choices (which pooled object a Pool.Get returns)
// of sequential code to the explorer for the duration of f.
func WithEnv(c *explore.C, f func()) {
	sched.SetEnv(chooser{c})
	defer sched.SetEnv(nil)
	f()
}

// RunThreads runs bodies as cooperative threads, every interleaving decision
// being asked from the explorer.  onPoint (may be nil, must be //go:norace) is
// evaluated at every scheduling point.
func RunThreads(c *explore.C, horizon int, onPoint func(label string), bodies ...func()) *sched.Run {
	return sched.Go(chooser{c}, horizon, onPoint, bodies...)
}

// RaceBuild reports whether this binary carries the race detector.
const RaceBuild = sched.RaceBuild

// IsAbort reports whether a recovered panic belongs to the scheduler.
func IsAbort(p interface{}) bool { return sched.IsAbort(p) }

// Invisible runs harness bookkeeping without leaving synchronisation events for the race detector.
func Invisible(f func()) { sched.Invisible(f) }
