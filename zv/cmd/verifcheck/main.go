// Command verifcheck runs one property check: verifcheck <Cxx> --tier quick|thorough [--replay file].
package main

import (
	_ "github.com/cloudwego/frugal/zverif/checks"
	"github.com/cloudwego/frugal/zverif/harness"
)

func main() { harness.Main() }
