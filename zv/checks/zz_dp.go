package checks

import (
	"bytes"
	"fmt"
	"reflect"

	"github.com/cloudwego/frugal/zverif/explore"
	"github.com/cloudwego/frugal/zverif/harness"
	"github.com/cloudwego/frugal/zverif/hooks"
	"github.com/cloudwego/frugal/zverif/ref"
	"github.com/cloudwego/frugal/zverif/universe"
)

// Phases on the recursive type DP whose default initialiser is PARTIAL (assigns only the fields
// that declare a default, one of them a non-nil list): registered with C10 and C01.

func init() {
	for _, id := range []string{"C10", "C01"} {
		id := id
		ck := harness.Lookup(id)
		old := ck.Phases
		ck.Phases = func(tier universe.Tier) []*harness.Phase {
			return append(old(tier), &harness.Phase{
				Name: "recursive-partial-defaults",
				Rule: "the recursive type DP (partial default initialiser with a non-nil list default) as top-level type and under a different top-level type x 6 nesting positions x which fields are away from their default x second element variants; encode vs reference omission rule, decode vs reference defaults, and decode again after the caller modified the first result's default containers in place",
				Body: func(c *explore.C) { dpBody(c, id) },
			})
		}
	}
}

func dpBody(c *explore.C, prop string) {
	root := c.Choose(2, explore.Data, "top-level-type") // 0: DP itself (recursive root), 1: DPOuter
	pos := c.Choose(4, explore.Data, "position")        // Next, Kids, ByVal, Vals
	mask := c.Choose(16, explore.Data, "fields-away-from-default")
	second := c.Choose(3, explore.Data, "second-element")
	deep := c.Bool(explore.Data, "two-levels")
	harness.Cur.Crumb(c.Choices())
	hooks.Reset()
	d, o := universe.DPSpecs()
	if parsed, err := ref.ParseTags(d.GoType); err != nil || parsed.String() != d.String() {
		panic(fmt.Sprintf("harness error: reference tag parser reads %v (%v) for DP, the spec says %s", parsed, err, d))
	}
	mkv := func(m int, inner *ref.Val) *ref.Val {
		v := ref.InitStruct(d)
		if m&1 != 0 {
			v.F[0] = ref.Int(ref.KI32, 0) // away from the default 5
		}
		if m&2 != 0 {
			v.F[1] = ref.Str("set")
			v.F[2] = ref.Str("ptr")
		}
		if m&4 != 0 {
			v.F[3] = ref.List(ref.KList, ref.Int(ref.KI32, 9))
		}
		if m&8 != 0 {
			v.F[3] = ref.NilOf(ref.KList) // nil: omitted on the wire, the reader sees the declared default list
		}
		if inner != nil {
			v.F[5] = inner
		}
		return v
	}
	var inner *ref.Val
	if deep {
		inner = mkv(mask^15, nil)
	}
	el := []*ref.Val{mkv(mask, inner)}
	switch second {
	case 1:
		el = append(el, mkv(0, nil)) // everything at its default: a bare STOP on the wire
	case 2:
		el = append(el, mkv(mask&^2, nil)) // omits the fields the first element set
	}
	top := ref.InitStruct(d)
	switch pos {
	case 0:
		top.F[5] = el[0]
	case 1:
		top.F[4] = ref.List(ref.KList, el...)
	case 2:
		m := &ref.Val{K: ref.KMap}
		for i, e := range el {
			m.M = append(m.M, [2]*ref.Val{ref.Str(fmt.Sprint("k", i)), e})
		}
		top.F[6] = m
	case 3:
		top.F[7] = ref.List(ref.KList, el...)
	}
	S, V := d, top
	if root == 1 {
		S = o
		V = ref.ZeroStruct(o)
		V.F[0] = top
		V.F[1] = &ref.Val{K: ref.KMap, M: [][2]*ref.Val{{ref.Int(ref.KI32, 1), mkv(mask, nil)}, {ref.Int(ref.KI32, 2), mkv(0, nil)}}}
	}
	how := fmt.Sprintf("top=%d position=%d mask=%04b second=%d deep=%v", root, pos, mask, second, deep)
	want := ref.Encode(S, V)
	buf := make([]byte, len(want)+32)
	r := Enc(buf, universe.New(S, V).Interface())
	gc, err := ref.Canonical(buf[:r.N])
	wc, _ := ref.Canonical(want)
	if r.Panic != nil || r.Err != nil || err != nil || !bytes.Equal(gc, wc) {
		c.Fail(fmt.Sprintf("encoding differs from the reference (%v) [%s]", r, how), mkCase(prop, "encode-mismatch", S, V, buf[:r.N], map[string]string{"reference": hx(want)}))
		return
	}
	// the destination: default-initialised by the caller when it is the type with defaults (C01), zero otherwise
	var prior *ref.Val
	if root == 0 {
		prior = ref.InitStruct(d)
	}
	for round := 0; round < 2; round++ {
		exp := ref.Decode(S, want, prior, ref.DecOpts{})
		dst := universe.New(S, prior)
		dr := Dec(append([]byte{}, want...), dst.Interface())
		if dr.Panic != nil || dr.Err != nil || dr.N != exp.N {
			c.Fail(fmt.Sprintf("DecodeObject: %v [%s, round %d]", dr, how, round), mkCase(prop, "decode-failed", S, V, want, nil))
			return
		}
		if g := universe.ReadStruct(S, dst.Elem()); g.Canon() != exp.V.Canon() {
			what := "nested structs the decoder creates must carry their declared defaults"
			if round == 1 {
				what = "after the caller modified the containers of an earlier result in place, a fresh decode no longer yields the declared defaults"
			}
			c.Fail(what+" ["+how+"]", mkCase(prop, "defaults-mismatch", S, V, want, map[string]string{"got": g.Short(), "want": exp.V.Short()}))
			return
		}
		// the caller scribbles over every list it can reach in the result (its own memory now)
		scribble(dst.Elem(), 0)
	}
	harness.Cur.Outcome(harness.Hash64(want, []byte(how)), fmt.Sprintf("top%d/pos%d", root, pos))
}

// scribble overwrites the elements of every []int32 reachable from v.
func scribble(v reflect.Value, depth int) {
	if depth > 6 {
		return
	}
	switch v.Kind() {
	case reflect.Ptr:
		if !v.IsNil() {
			scribble(v.Elem(), depth+1)
		}
	case reflect.Struct:
		for i := 0; i < v.NumField(); i++ {
			scribble(v.Field(i), depth+1)
		}
	case reflect.Slice:
		for i := 0; i < v.Len(); i++ {
			if v.Index(i).Kind() == reflect.Int32 {
				v.Index(i).SetInt(-99)
			} else if v.Index(i).CanAddr() {
				scribble(v.Index(i), depth+1)
			}
		}
	case reflect.Map:
		it := v.MapRange()
		for it.Next() {
			if it.Value().Kind() == reflect.Ptr {
				scribble(it.Value(), depth+1)
			} else if it.Value().Kind() == reflect.Struct {
				// by-value map entries are copies; their slices still share the decoder's memory
				for i := 0; i < it.Value().NumField(); i++ {
					f := it.Value().Field(i)
					if f.Kind() == reflect.Slice && f.Type().Elem().Kind() == reflect.Int32 {
						for k := 0; k < f.Len(); k++ {
							reflect.NewAt(f.Type().Elem(), f.Index(k).Addr().UnsafePointer()).Elem().SetInt(-99)
						}
					}
				}
			}
		}
	}
}
