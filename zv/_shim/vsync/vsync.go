// Package vsync mirrors the API of package sync on top of the cooperative
// scheduler: outside a scheduled run every operation is a deterministic
// pass-through; inside a run every operation is a scheduling point and blocking
// operations disable the thread.  Pool.Get is additionally an environment
// choice (any pooled object, or a new one).
package vsync

import (
	"github.com/cloudwego/frugal/internal/verifshim/sched"
)

type mutexFree struct{ m *Mutex }

//go:norace
func (w mutexFree) Ready() bool { return !w.m.held }

type rwFree struct{ m *RWMutex }

//go:norace
func (w rwFree) Ready() bool { return !w.m.w && w.m.readers == 0 }

type rwNoWriter struct{ m *RWMutex }

//go:norace
func (w rwNoWriter) Ready() bool { return !w.m.w }

type wgZero struct{ w *WaitGroup }

//go:norace
func (w wgZero) Ready() bool { return w.w.n == 0 }

type tokSet struct{ tok *int }

//go:norace
func (w tokSet) Ready() bool { return *w.tok == 1 }

type Locker interface {
	Lock()
	Unlock()
}

type Mutex struct {
	held bool
}

//go:norace
func (m *Mutex) Lock() {
	sched.Point("Mutex.Lock")
	sched.Block("Mutex.Lock", mutexFree{m})
	m.held = true
	sched.NoteAcquire()
	raceAcquire(m)
}

//go:norace
func (m *Mutex) TryLock() bool {
	sched.Point("Mutex.TryLock")
	if m.held {
		return false
	}
	m.held = true
	raceAcquire(m)
	return true
}

//go:norace
func (m *Mutex) Unlock() {
	sched.Point("Mutex.Unlock")
	if !m.held {
		panic("sync: unlock of unlocked mutex")
	}
	raceRelease(m)
	m.held = false
}

type RWMutex struct {
	w       bool
	readers int
}

//go:norace
func (m *RWMutex) Lock() {
	sched.Point("RWMutex.Lock")
	sched.Block("RWMutex.Lock", rwFree{m})
	m.w = true
	raceAcquire(m)
}

//go:norace
func (m *RWMutex) TryLock() bool {
	sched.Point("RWMutex.TryLock")
	if m.w || m.readers > 0 {
		return false
	}
	m.w = true
	raceAcquire(m)
	return true
}

//go:norace
func (m *RWMutex) Unlock() {
	sched.Point("RWMutex.Unlock")
	if !m.w {
		panic("sync: Unlock of unlocked RWMutex")
	}
	raceRelease(m)
	m.w = false
}

//go:norace
func (m *RWMutex) RLock() {
	sched.Point("RWMutex.RLock")
	sched.Block("RWMutex.RLock", rwNoWriter{m})
	m.readers++
	raceAcquire(m)
}

//go:norace
func (m *RWMutex) TryRLock() bool {
	sched.Point("RWMutex.TryRLock")
	if m.w {
		return false
	}
	m.readers++
	raceAcquire(m)
	return true
}

//go:norace
func (m *RWMutex) RUnlock() {
	sched.Point("RWMutex.RUnlock")
	if m.readers <= 0 {
		panic("sync: RUnlock of unlocked RWMutex")
	}
	raceReleaseMerge(m)
	m.readers--
}

type rlocker RWMutex

//go:norace
func (r *rlocker) Lock() { (*RWMutex)(r).RLock() }

//go:norace
func (r *rlocker) Unlock() { (*RWMutex)(r).RUnlock() }

//go:norace
func (m *RWMutex) RLocker() Locker { return (*rlocker)(m) }

type Once struct {
	m    Mutex
	done bool
}

//go:norace
func (o *Once) Do(f func()) {
	sched.Point("Once.Do")
	if o.done {
		raceAcquire(o)
		return
	}
	o.m.Lock()
	defer o.m.Unlock()
	if !o.done {
		defer o.finish()
		f()
	}
}

//go:norace
func (o *Once) finish() {
	raceRelease(o)
	o.done = true
}

func OnceFunc(f func()) func() {
	var o Once
	return func() { o.Do(f) }
}

type WaitGroup struct {
	n int
}

//go:norace
func (w *WaitGroup) Add(d int) {
	sched.Point("WaitGroup.Add")
	raceRelease(w)
	w.n += d
	if w.n < 0 {
		panic("sync: negative WaitGroup counter")
	}
}

//go:norace
func (w *WaitGroup) Done() { w.Add(-1) }

//go:norace
func (w *WaitGroup) Wait() {
	sched.Point("WaitGroup.Wait")
	sched.Block("WaitGroup.Wait", wgZero{w})
	raceAcquire(w)
}

type Cond struct {
	L       Locker
	waiters []*int
}

//go:norace
func NewCond(l Locker) *Cond { return &Cond{L: l} }

//go:norace
func (c *Cond) Wait() {
	tok := new(int)
	c.waiters = append(c.waiters, tok)
	c.L.Unlock()
	sched.Block("Cond.Wait", tokSet{tok})
	raceAcquire(c)
	c.L.Lock()
}

//go:norace
func (c *Cond) Signal() {
	sched.Point("Cond.Signal")
	raceRelease(c)
	if len(c.waiters) > 0 {
		*c.waiters[0] = 1
		c.waiters = c.waiters[1:]
	}
}

//go:norace
func (c *Cond) Broadcast() {
	sched.Point("Cond.Broadcast")
	raceRelease(c)
	for _, w := range c.waiters {
		*w = 1
	}
	c.waiters = nil
}

// Pool: deterministic, immune to GC.  Get may legally return any pooled object
// or a new one; the default answer is the most recently Put object (LIFO, the
// adversarial case for leakage between calls); older objects and "new" are
// deviations decided by the environment chooser.
type Pool struct {
	New   func() any
	items []poolItem
}

type poolItem struct {
	v    any
	cell *byte // the race detector's synchronisation address of this pooled object
}

//go:norace
func (p *Pool) Put(x any) {
	if x == nil {
		return
	}
	sched.Point("Pool.Put")
	it := poolItem{v: x, cell: new(byte)}
	raceRelease(it.cell)
	p.items = append(p.items, it)
}

//go:norace
func (p *Pool) Get() any {
	sched.Point("Pool.Get")
	n := len(p.items)
	if n > 0 {
		// alternatives: 0 = newest … n-1 = oldest, n = a new object
		k := sched.Env(n+1, "Pool.Get")
		if k < n {
			i := n - 1 - k
			raceAcquireItem(p, i)
			x := p.items[i].v
			copy(p.items[i:], p.items[i+1:])
			p.items[n-1] = poolItem{}
			p.items = p.items[:n-1]
			return x
		}
	}
	if p.New != nil {
		return p.New()
	}
	return nil
}

// Len reports the number of pooled objects (verification hook).
//
//go:norace
func (p *Pool) Len() int { return len(p.items) }

// Map mirrors sync.Map with a mutex-protected map.
type Map struct {
	mu Mutex
	m  map[any]any
	ks []any // insertion order, for deterministic Range
}

//go:norace
func (m *Map) Load(k any) (any, bool) {
	m.mu.Lock()
	defer m.mu.Unlock()
	v, ok := m.m[k]
	return v, ok
}

//go:norace
func (m *Map) Store(k, v any) {
	m.mu.Lock()
	defer m.mu.Unlock()
	m.store(k, v)
}

//go:norace
func (m *Map) store(k, v any) {
	if m.m == nil {
		m.m = map[any]any{}
	}
	if _, ok := m.m[k]; !ok {
		m.ks = append(m.ks, k)
	}
	m.m[k] = v
}

//go:norace
func (m *Map) LoadOrStore(k, v any) (any, bool) {
	m.mu.Lock()
	defer m.mu.Unlock()
	if x, ok := m.m[k]; ok {
		return x, true
	}
	m.store(k, v)
	return v, false
}

//go:norace
func (m *Map) LoadAndDelete(k any) (any, bool) {
	m.mu.Lock()
	defer m.mu.Unlock()
	v, ok := m.m[k]
	m.del(k)
	return v, ok
}

//go:norace
func (m *Map) del(k any) {
	if _, ok := m.m[k]; ok {
		delete(m.m, k)
		for i, x := range m.ks {
			if x == k {
				m.ks = append(m.ks[:i:i], m.ks[i+1:]...)
				break
			}
		}
	}
}

//go:norace
func (m *Map) Delete(k any) { m.LoadAndDelete(k) }

//go:norace
func (m *Map) Swap(k, v any) (any, bool) {
	m.mu.Lock()
	defer m.mu.Unlock()
	old, ok := m.m[k]
	m.store(k, v)
	return old, ok
}

//go:norace
func (m *Map) CompareAndSwap(k, old, new any) bool {
	m.mu.Lock()
	defer m.mu.Unlock()
	if x, ok := m.m[k]; ok && x == old {
		m.m[k] = new
		return true
	}
	return false
}

//go:norace
func (m *Map) CompareAndDelete(k, old any) bool {
	m.mu.Lock()
	defer m.mu.Unlock()
	if x, ok := m.m[k]; ok && x == old {
		m.del(k)
		return true
	}
	return false
}

//go:norace
func (m *Map) Range(f func(k, v any) bool) {
	m.mu.Lock()
	ks := append([]any{}, m.ks...)
	m.mu.Unlock()
	for _, k := range ks {
		v, ok := m.Load(k)
		if !ok {
			continue
		}
		if !f(k, v) {
			return
		}
	}
}
