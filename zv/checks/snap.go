package checks

import (
	"bytes"
	"fmt"
	"reflect"
	"sort"
	"unsafe"
)

// memSnap is a deep snapshot of everything reachable from a Go value: the raw
// memory of every struct (padding included), of every slice backing array up
// to its capacity and of every string, plus map contents.
type memSnap struct {
	blocks []memBlock
	maps   []string
	seen   map[uintptr]bool
}

type memBlock struct {
	addr uintptr
	data []byte
	what string
}

func rawBytes(p unsafe.Pointer, n int) []byte {
	if n == 0 || p == nil {
		return nil
	}
	return append([]byte{}, unsafe.Slice((*byte)(p), n)...)
}

// Snapshot walks rv (which must be addressable or a pointer).
func Snapshot(rv reflect.Value) *memSnap {
	s := &memSnap{seen: map[uintptr]bool{}}
	s.walk(rv, "root")
	return s
}

func (s *memSnap) block(p unsafe.Pointer, n int, what string) bool {
	if p == nil || n == 0 {
		return false
	}
	a := uintptr(p)
	if s.seen[a] {
		return false
	}
	s.seen[a] = true
	s.blocks = append(s.blocks, memBlock{a, rawBytes(p, n), what})
	return true
}

func (s *memSnap) walk(rv reflect.Value, path string) {
	switch rv.Kind() {
	case reflect.Ptr:
		if rv.IsNil() {
			return
		}
		if s.block(rv.UnsafePointer(), int(rv.Type().Elem().Size()), path+"*") {
			s.walk(rv.Elem(), path+"*")
		}
	case reflect.Struct:
		for i := 0; i < rv.NumField(); i++ {
			s.walk(rv.Field(i), path+"."+rv.Type().Field(i).Name)
		}
	case reflect.String:
		if rv.Len() > 0 {
			str := rv.String()
			s.block(unsafe.Pointer(unsafe.StringData(str)), len(str), path+"(str)")
		}
	case reflect.Slice:
		if rv.IsNil() {
			return
		}
		full := rv.Slice3(0, rv.Cap(), rv.Cap())
		if full.Len() == 0 {
			return
		}
		if s.block(full.UnsafePointer(), full.Len()*int(rv.Type().Elem().Size()), path+"[]") {
			switch rv.Type().Elem().Kind() {
			case reflect.Ptr, reflect.Struct, reflect.String, reflect.Slice, reflect.Map:
				for i := 0; i < full.Len(); i++ {
					s.walk(full.Index(i), fmt.Sprintf("%s[%d]", path, i))
				}
			}
		}
	case reflect.Map:
		if rv.IsNil() {
			s.maps = append(s.maps, path+"=nil")
			return
		}
		var ents []string
		it := rv.MapRange()
		for it.Next() {
			ks := Snapshot(addressable(it.Key()))
			vs := Snapshot(addressable(it.Value()))
			ents = append(ents, fmt.Sprintf("%x=>%x", ks.digest(false), vs.digest(false)))
		}
		sort.Strings(ents)
		s.maps = append(s.maps, fmt.Sprintf("%s=%d%v", path, rv.Len(), ents))
	}
}

func addressable(v reflect.Value) reflect.Value {
	c := reflect.New(v.Type()).Elem()
	c.Set(v)
	return c.Addr()
}

// digest renders the snapshot; withAddr includes block addresses (stable
// between two snapshots of the same live value).
func (s *memSnap) digest(withAddr bool) []byte {
	var b bytes.Buffer
	for _, k := range s.blocks {
		if withAddr {
			fmt.Fprintf(&b, "%x:", k.addr)
		}
		b.Write(k.data)
		b.WriteByte('|')
	}
	for _, m := range s.maps {
		b.WriteString(m)
	}
	return b.Bytes()
}

// Diff compares two snapshots of the same live value and describes the first difference.
func (s *memSnap) Diff(o *memSnap) string {
	if len(s.blocks) != len(o.blocks) {
		return fmt.Sprintf("reachable memory blocks changed: %d -> %d", len(s.blocks), len(o.blocks))
	}
	for i := range s.blocks {
		a, b := s.blocks[i], o.blocks[i]
		if a.addr != b.addr {
			return fmt.Sprintf("%s: pointer changed", a.what)
		}
		if !bytes.Equal(a.data, b.data) {
			for j := range a.data {
				if a.data[j] != b.data[j] {
					return fmt.Sprintf("%s: byte %d of %d changed %02x -> %02x", a.what, j, len(a.data), a.data[j], b.data[j])
				}
			}
		}
	}
	if len(s.maps) != len(o.maps) {
		return "maps changed"
	}
	for i := range s.maps {
		if s.maps[i] != o.maps[i] {
			return "map content changed at " + s.maps[i][:min(len(s.maps[i]), 60)]
		}
	}
	return ""
}

func min(a, b int) int {
	if a < b {
		return a
	}
	return b
}
