#!/usr/bin/env python3
"""Generates the catalogue of deliberate property-breaking changes (own mutants)
as patch files under selftest/mutants/, from (file, old, new) replacements applied
to a scratch worktree of /repo's HEAD.  usage: make_mutants.py"""
import subprocess, os, sys, tempfile, shutil, json

M = [
 # name, properties expected to flag it, file, old, new
 ("m01_enum_no_sign_extension", ["C01"], "internal/reflect/decoder.go",
  "*(*int64)(p) = int64(int32(binary.BigEndian.Uint32(b)))", "*(*int64)(p) = int64(binary.BigEndian.Uint32(b))"),
 ("m03_map_i16_i32_wrong_routine", ["C02", "C01"], "internal/reflect/append_map_fast.go",
  "registerMapAppendFunc(tI16, tI32, appendMap_I16_I32)", "registerMapAppendFunc(tI16, tI32, appendMap_I16_I16)"),
 ("m04_list_cap_plus_one", ["C06"], "internal/reflect/decoder.go",
  "h.Cap = l\n", "h.Cap = l + 1\n"),
 ("m05_size_optional_scalar_no_header", ["C04"], "internal/reflect/ttype.go",
  "ret += (fieldHeaderLen + int(n))", "ret += int(n)"),
 ("m06_encode_overflow_ge", ["C04"], "frugal.go",
  "if len(ret) > len(buf) {", "if len(ret) >= len(buf) {"),
 ("m07_list_count_unchecked", ["C05"], "internal/reflect/decoder.go",
  "if remain := len(b) - i; l > remain/int(minWireSize[et.WT]) {", "if remain := len(b) - i; false && l > remain/int(minWireSize[et.WT]) {"),
 ("m08_string_negative_len_unchecked", ["C05"], "internal/reflect/decoder.go",
  "\t\tl := int(int32(binary.BigEndian.Uint32(b)))\n\t\tif l < 0 {\n\t\t\treturn 0, errNegativeSize\n\t\t}\n\t\ti := 4",
  "\t\tl := int(int32(binary.BigEndian.Uint32(b)))\n\t\ti := 4"),
 ("m09_getfield_ge_maxid", ["C03", "C01"], "internal/reflect/desc.go",
  "if fid > d.maxID {", "if fid >= d.maxID {"),
 ("m11_required_clear_first_only", ["C09", "C07"], "internal/reflect/decoder.go",
  "for _, f := range sd.requiredFieldIDs {\n\t\t\tbs.unset(f)", "for _, f := range sd.requiredFieldIDs[:1] {\n\t\t\tbs.unset(f)"),
 ("m12_encode_normalises_nil_slice", ["C16"], "internal/reflect/append_list.go",
  "\tif *(*unsafe.Pointer)(p) == nil {\n\t\treturn append(b, byte(t.WT), 0, 0, 0, 0), 0, nil\n\t}",
  "\tif *(*unsafe.Pointer)(p) == nil {\n\t\t(*sliceHeader)(p).Zero()\n\t\treturn append(b, byte(t.WT), 0, 0, 0, 0), 0, nil\n\t}"),
 ("m13_wrong_type_counts_as_present", ["C09"], "internal/reflect/decoder.go",
  "\t\tf := sd.GetField(fid)\n\t\tif f == nil || f.Type.WT != tp {", "\t\tf := sd.GetField(fid)\n\t\tif f != nil && bs != nil {\n\t\t\tbs.set(f.ID)\n\t\t}\n\t\tif f == nil || f.Type.WT != tp {"),
 ("m14_decode_returns_i_minus_1", ["C03", "C01"], "internal/reflect/decoder.go",
  "\tif ufs != nil && ufs.Size() > 0 {\n\t\t*(*[]byte)(unsafe.Add(base, sd.unknownFieldsOffset)) = ufs.Copy(b)\n\t}\n\treturn i, nil",
  "\tif ufs != nil && ufs.Size() > 0 {\n\t\t*(*[]byte)(unsafe.Add(base, sd.unknownFieldsOffset)) = ufs.Copy(b)\n\t\treturn i - 1, nil\n\t}\n\treturn i, nil"),
 ("m15_zero_buf_tail_after_encode", ["C16"], "frugal.go",
  "\treturn len(ret), err\n}", "\tfor i := len(ret); i < len(buf) && err == nil; i++ {\n\t\tbuf[i] = 0\n\t}\n\treturn len(ret), err\n}"),
 ("m16_unknown_off_by_header", ["C11"], "internal/reflect/decoder.go",
  "ufs.Add(i-fieldHeaderLen, n+fieldHeaderLen)", "ufs.Add(i, n+fieldHeaderLen)"),
 ("m17_size_forgets_unknown_fields", ["C11", "C04"], "internal/reflect/ttype.go",
  "\tif sd.hasUnknownFields {\n\t\tret += len(*(*[]byte)(unsafe.Add(base, sd.unknownFieldsOffset)))\n\t}", ""),
 ("m18_nocopy_spare_capacity", ["C14"], "internal/reflect/decoder.go",
  "*(*[]byte)(p) = unsafe.Slice(&b[i], l)", "*(*[]byte)(p) = unsafe.Slice(&b[i], len(b)-i)[:l]"),
 ("m19_depth_no_decrement_list", ["C15"], "internal/reflect/decoder.go",
  "\t\t\t\tn, err := d.decodeType(et, b[i:], vp, maxdepth-1)", "\t\t\t\tn, err := d.decodeType(et, b[i:], vp, maxdepth)"),
 ("m20_default_compare_bits", ["C10"], "internal/reflect/ttype.go",
  "return *(*float64)(p0) == *(*float64)(p1)", "return *(*uint64)(p0) == *(*uint64)(p1)"),
 ("m21_thrift_tag_keeps_name", ["C12"], "internal/defs/resolver.go",
  "return trimSpaces(ss[1:]), true", "if len(ss) > 4 {\n\t\t\t\treturn trimSpaces(ss[:len(ss)-1]), true\n\t\t\t}\n\t\t\treturn trimSpaces(ss[1:]), true"),
 ("m22_accept_uint32", ["C13"], "internal/defs/types.go",
  "\tcase reflect.Uint32:\n\t\treturn nil, EUseOther(vt, \"int32\")", "\tcase reflect.Uint32:\n\t\ttag = T_i32"),
 ("m23_bitset_pool_dropped_unset", ["C07", "C09"], "internal/reflect/decoder.go",
  "\t\tfor _, f := range sd.requiredFieldIDs {\n\t\t\tbs.unset(f)\n\t\t}\n", ""),
 ("m24_heap_map_iter", ["C18"], "internal/reflect/append_map.go",
  "\tit := newMapIter(rvWithPtr(t.RV, p))\n\tfor kp, vp := it.Next(); kp != nil; kp, vp = it.Next() {\n\t\tn--\n\t\tb, err = appendAny(t.K, b, kp)",
  "\tit := new(mapIter)\n\t*it = newMapIter(rvWithPtr(t.RV, p))\n\tlastIter = it\n\tfor kp, vp := it.Next(); kp != nil; kp, vp = it.Next() {\n\t\tn--\n\t\tb, err = appendAny(t.K, b, kp)"),
 ("m30_no_lock_in_createStructDesc", ["C08"], "internal/reflect/desc.go",
  "\tsdsmu.Lock()\n\tdefer sdsmu.Unlock()\n", ""),
 ("m32_publish_before_prefetch", ["C08"], "internal/reflect/desc.go",
  "\tprefetchStructDescCache[t] = sd\n", "\tprefetchStructDescCache[t] = sd\n\tsds.Set(rtTypePtr(t), sd) // publish early\n"),
 ("m33_single_global_decoder", ["C08"], "internal/reflect/reflect.go",
  "\td := decoderPool.Get().(*tDecoder)\n\tn, err := d.Decode(b, rv.UnsafePointer(), sd, maxDepthLimit)\n\tdecoderPool.Put(d)", "\td := theDecoder\n\tn, err := d.Decode(b, rv.UnsafePointer(), sd, maxDepthLimit)"),
 ("m40_pretouch_registers_type", ["C17"], "frugal.go",
  "func Pretouch(vt any, options ...Option) error {\n\treturn nil\n}", "func Pretouch(vt any, options ...Option) error {\n\t_, err := reflect.Append(nil, vt)\n\treturn err\n}"),
]
MULTI = [
 ("m34_tmp_map_vars_one_per_type", ["C08"], [
   ("internal/reflect/decoder.go", "\t\ttmp := t.MapTmpVarsPool.Get().(*tmpMapVars)\n", "\t\tif t.sharedTmp == nil {\n\t\t\tt.sharedTmp = t.MapTmpVarsPool.Get().(*tmpMapVars)\n\t\t}\n\t\ttmp := t.sharedTmp // one scratch per map type is enough\n"),
   ("internal/reflect/decoder.go", "\t\tt.MapTmpVarsPool.Put(tmp) // not using defer for better performance\n", ""),
   ("internal/reflect/ttype.go", "\tMapTmpVarsPool *sync.Pool // for decoder tmp vars\n", "\tMapTmpVarsPool *sync.Pool // for decoder tmp vars\n\tsharedTmp      *tmpMapVars\n"),
 ]),
 ("m42_env_il_size_bounds_decoder_depth", ["C17"], [
   ("internal/reflect/reflect.go", "\tn, err := d.Decode(b, rv.UnsafePointer(), sd, maxDepthLimit)", "\tlimit := maxDepthLimit\n\tif opts.MaxInlineILSize < 1000 {\n\t\tlimit = 4 // small IL budget: keep decoding shallow\n\t}\n\tn, err := d.Decode(b, rv.UnsafePointer(), sd, limit)"),
   ("internal/reflect/reflect.go", "\t\"errors\"\n", "\t\"errors\"\n\n\t\"github.com/cloudwego/frugal/internal/opts\"\n"),
 ]),
]
EXTRA = {"m33_single_global_decoder": ("internal/reflect/reflect.go", "\nvar theDecoder = func() *tDecoder { d := &tDecoder{}; d.s.init(); return d }()\n"),"m24_heap_map_iter": ("internal/reflect/append_map.go", "\nvar lastIter *mapIter\n")}

def main():
    out = os.path.join(os.path.dirname(os.path.abspath(__file__)), "mutants")
    os.makedirs(out, exist_ok=True)
    w = tempfile.mkdtemp(prefix="verif-mk-", dir="/var/tmp")
    os.rmdir(w)
    subprocess.check_call(["git", "-C", "/repo", "worktree", "add", "-q", "--detach", w, "HEAD"])
    index = []
    try:
        for ent in M + MULTI:
            if len(ent) == 5:
                name, props, f, old, new = ent
                edits = [(f, old, new)]
            else:
                name, props, edits = ent
                f = edits[0][0]
            ok = True
            for (ef, old, new) in edits:
                p = os.path.join(w, ef)
                s = open(p).read()
                if s.count(old) != 1:
                    print("SKIP", name, ": pattern occurs", s.count(old), "times in", ef)
                    ok = False
                    break
                s = s.replace(old, new)
                if name in EXTRA and EXTRA[name][0] == ef:
                    s += EXTRA[name][1]
                open(p, "w").write(s)
                subprocess.call(["gofmt", "-w", p])
            if not ok:
                subprocess.check_call(["git", "-C", w, "checkout", "-q", "--", "."])
                continue
            d = subprocess.check_output(["git", "-C", w, "diff"]).decode()
            open(os.path.join(out, name + ".diff"), "w").write(d)
            index.append({"name": name, "expected": props, "file": f})
            subprocess.check_call(["git", "-C", w, "checkout", "-q", "--", "."])
        json.dump(index, open(os.path.join(out, "index.json"), "w"), indent=1)
        print(len(index), "mutants written")
    finally:
        subprocess.call(["git", "-C", "/repo", "worktree", "remove", "--force", w])
        shutil.rmtree(w, ignore_errors=True)

main()
