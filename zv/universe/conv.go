package universe

import (
	"math"
	"reflect"

	"github.com/cloudwego/frugal/zverif/ref"
)

// New returns a pointer to a new Go struct of s holding v (v nil = zero value).
func New(s *ref.Struct, v *ref.Val) reflect.Value {
	p := reflect.New(StructGoType(s))
	if v != nil {
		setStruct(s, p.Elem(), v)
	}
	return p
}

// Build returns a Go value of GoType(t) holding v.
func Build(t *ref.Type, v *ref.Val) reflect.Value {
	rt := GoType(t)
	if t.Ptr {
		if v == nil {
			return reflect.Zero(rt)
		}
		p := reflect.New(rt.Elem())
		setElem(t, p.Elem(), v)
		return p
	}
	x := reflect.New(rt).Elem()
	setElem(t, x, v)
	return x
}

func setElem(t *ref.Type, dst reflect.Value, v *ref.Val) {
	switch t.Kind {
	case ref.KBool:
		dst.SetBool(v.U != 0)
	case ref.KI8, ref.KI16, ref.KI32, ref.KI64, ref.KEnum:
		dst.SetInt(int64(v.U))
	case ref.KDouble:
		dst.SetFloat(math.Float64frombits(v.U))
	case ref.KString:
		dst.SetString(string(v.B))
	case ref.KBinary:
		if v.Nil {
			dst.Set(reflect.Zero(dst.Type()))
		} else {
			dst.SetBytes(append(make([]byte, 0, len(v.B)), v.B...))
		}
	case ref.KList, ref.KSet:
		if v.Nil {
			dst.Set(reflect.Zero(dst.Type()))
			return
		}
		sl := reflect.MakeSlice(dst.Type(), len(v.L), len(v.L))
		for i, e := range v.L {
			sl.Index(i).Set(Build(t.Elem, e))
		}
		dst.Set(sl)
	case ref.KMap:
		if v.Nil {
			dst.Set(reflect.Zero(dst.Type()))
			return
		}
		m := reflect.MakeMapWithSize(dst.Type(), len(v.M))
		var dummies []reflect.Value
		if MapHoles && len(v.M) > 0 && len(v.M) <= 6 {
			// a map that has lived: an entry inserted before the real ones and deleted afterwards leaves an
			// empty slot in front of live entries (what delete() does to applications' maps)
			for cand := 1000; cand < 1010 && len(dummies) < 2; cand++ {
				k := Nth(t.Key, cand)
				if k == nil || k.K == ref.KDouble && math.IsNaN(math.Float64frombits(k.U)) {
					continue // (a NaN key can never be deleted again)
				}
				clash := false
				for _, e := range v.M {
					if e[0] != nil && e[0].Canon() == k.Canon() {
						clash = true
					}
				}
				if !clash {
					kv := Build(t.Key, k)
					m.SetMapIndex(kv, reflect.Zero(dst.Type().Elem()))
					dummies = append(dummies, kv)
				}
			}
		}
		for _, e := range v.M {
			m.SetMapIndex(Build(t.Key, e[0]), Build(t.Elem, e[1]))
		}
		for _, kv := range dummies {
			m.SetMapIndex(kv, reflect.Value{})
		}
		dst.Set(m)
	case ref.KStruct:
		setStruct(t.St, dst, v)
	default:
		panic("bad kind")
	}
}

// MapHoles makes New build small maps with deleted entries in front of the live ones.
var MapHoles bool

func setStruct(s *ref.Struct, dst reflect.Value, v *ref.Val) {
	StructGoType(s)
	for i, f := range s.Fields {
		dst.Field(f.GoIdx).Set(Build(f.Type, v.F[i]))
	}
	if s.Unknown {
		h := holder(dst, s.UnkIdx)
		if v.Unk == nil {
			h.Set(reflect.Zero(tBytes))
		} else {
			h.SetBytes(append([]byte{}, v.Unk...))
		}
	}
}

// Read converts a Go value of GoType(t) back into a tree.
func Read(t *ref.Type, rv reflect.Value) *ref.Val {
	if t.Ptr {
		if rv.IsNil() {
			return nil
		}
		rv = rv.Elem()
	}
	v := &ref.Val{K: t.Kind}
	switch t.Kind {
	case ref.KBool:
		if rv.Bool() {
			v.U = 1
		}
	case ref.KI8, ref.KI16, ref.KI32, ref.KI64, ref.KEnum:
		v.U = uint64(rv.Int())
	case ref.KDouble:
		v.U = math.Float64bits(rv.Float())
	case ref.KString:
		v.B = []byte(rv.String())
	case ref.KBinary:
		if rv.IsNil() {
			v.Nil = true
		} else {
			v.B = append([]byte{}, rv.Bytes()...)
		}
	case ref.KList, ref.KSet:
		if rv.IsNil() {
			v.Nil = true
			break
		}
		v.L = make([]*ref.Val, rv.Len())
		for i := range v.L {
			v.L[i] = Read(t.Elem, rv.Index(i))
		}
	case ref.KMap:
		if rv.IsNil() {
			v.Nil = true
			break
		}
		v.M = make([][2]*ref.Val, 0, rv.Len())
		it := rv.MapRange()
		for it.Next() {
			v.M = append(v.M, [2]*ref.Val{Read(t.Key, it.Key()), Read(t.Elem, it.Value())})
		}
	case ref.KStruct:
		return ReadStruct(t.St, rv)
	default:
		panic("bad kind")
	}
	return v
}

// ReadStruct converts a Go struct value (not a pointer) into a tree.
func ReadStruct(s *ref.Struct, rv reflect.Value) *ref.Val {
	StructGoType(s)
	v := &ref.Val{K: ref.KStruct, F: make([]*ref.Val, len(s.Fields))}
	for i, f := range s.Fields {
		v.F[i] = Read(f.Type, rv.Field(f.GoIdx))
	}
	if s.Unknown {
		if !rv.CanAddr() {
			c := reflect.New(rv.Type()).Elem()
			c.Set(rv)
			rv = c
		}
		h := holder(rv, s.UnkIdx)
		if !h.IsNil() {
			v.Unk = append([]byte{}, h.Bytes()...)
		}
	}
	return v
}

// NewSpare is New, except that every list/set is given spare capacity that
// holds live sentinel elements, so that writes beyond len can be observed.
func NewSpare(s *ref.Struct, v *ref.Val) reflect.Value {
	p := New(s, v)
	addSpare(&ref.Type{Kind: ref.KStruct, St: s}, p.Elem(), v)
	return p
}

func addSpare(t *ref.Type, rv reflect.Value, v *ref.Val) {
	if v == nil {
		return
	}
	if t.Ptr {
		rv = rv.Elem()
	}
	switch t.Kind {
	case ref.KBinary:
		if !v.Nil && rv.CanSet() {
			b := make([]byte, len(v.B), len(v.B)+6)
			copy(b, v.B)
			copy(b[len(b):cap(b)], []byte{0xA5, 0xA5, 0xA5, 0xA5, 0xA5, 0xA5})
			rv.SetBytes(b)
		}
	case ref.KStruct:
		for i, f := range t.St.Fields {
			addSpare(f.Type, rv.Field(f.GoIdx), v.F[i])
		}
		if t.St.Unknown && len(v.Unk) > 0 && rv.CanAddr() {
			// retained unknown bytes kept as a sub-slice of a larger payload (spare capacity holding other data)
			b := make([]byte, len(v.Unk), len(v.Unk)+6)
			copy(b, v.Unk)
			copy(b[len(b):cap(b)], []byte{0x0B, 0x7f, 0x7f, 0xA5, 0xA5, 0xA5})
			holder(rv, t.St.UnkIdx).SetBytes(b)
		}
	case ref.KList, ref.KSet:
		if v.Nil {
			return
		}
		n := len(v.L)
		sl := reflect.MakeSlice(rv.Type(), n+2, n+2)
		reflect.Copy(sl, rv)
		sl.Index(n).Set(Build(t.Elem, Nth(t.Elem, 41)))
		sl.Index(n + 1).Set(Build(t.Elem, Nth(t.Elem, 42)))
		rv.Set(sl.Slice3(0, n, n+2))
		for i, e := range v.L {
			addSpare(t.Elem, rv.Index(i), e)
		}
	}
}
