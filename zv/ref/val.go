package ref

import (
	"fmt"
	"math"
	"sort"
	"strings"
)

// Val is a schema-typed value tree.  A nil *Val stands for a nil Go pointer
// (optional pointer field, pointer-to-struct in any position).
type Val struct {
	K   Kind
	U   uint64    // bool (0/1), integers sign-extended to 64 bits, double bits, enum as int64
	B   []byte    // string / binary content
	Nil bool      // nil binary / list / set / map
	L   []*Val    // list / set elements in order
	M   [][2]*Val // map entries (a multiset: order is immaterial, duplicates possible with NaN / pointer keys)
	F   []*Val    // struct fields aligned with Struct.Fields
	Unk []byte    // content of the unknown-fields holder (nil and empty are not distinguished)
}

func Bool(b bool) *Val {
	if b {
		return &Val{K: KBool, U: 1}
	}
	return &Val{K: KBool}
}
func Int(k Kind, v int64) *Val    { return &Val{K: k, U: uint64(v)} }
func Double(f float64) *Val       { return &Val{K: KDouble, U: math.Float64bits(f)} }
func DoubleBits(u uint64) *Val    { return &Val{K: KDouble, U: u} }
func Str(s string) *Val           { return &Val{K: KString, B: []byte(s)} }
func Bin(b []byte) *Val           { return &Val{K: KBinary, B: append([]byte{}, b...), Nil: b == nil} }
func List(k Kind, e ...*Val) *Val { return &Val{K: k, L: e} }
func NilOf(k Kind) *Val           { return &Val{K: k, Nil: true} }

func (v *Val) Int64() int64 { return int64(v.U) }

// Clone makes a deep copy.
func (v *Val) Clone() *Val {
	if v == nil {
		return nil
	}
	c := *v
	if v.B != nil {
		c.B = append([]byte{}, v.B...)
	}
	if v.Unk != nil {
		c.Unk = append([]byte{}, v.Unk...)
	}
	if v.L != nil {
		c.L = make([]*Val, len(v.L))
		for i, e := range v.L {
			c.L[i] = e.Clone()
		}
	}
	if v.M != nil {
		c.M = make([][2]*Val, len(v.M))
		for i, e := range v.M {
			c.M[i] = [2]*Val{e[0].Clone(), e[1].Clone()}
		}
	}
	if v.F != nil {
		c.F = make([]*Val, len(v.F))
		for i, e := range v.F {
			c.F[i] = e.Clone()
		}
	}
	return &c
}

// Canon renders a canonical string: equal strings <=> equal values with map
// entries compared as multisets.  nil/empty distinctions are kept.
func (v *Val) Canon() string {
	var sb strings.Builder
	v.canon(&sb)
	return sb.String()
}

func (v *Val) canon(sb *strings.Builder) {
	if v == nil {
		sb.WriteString("<nilptr>")
		return
	}
	switch v.K {
	case KBool, KI8, KI16, KI32, KI64, KEnum:
		fmt.Fprintf(sb, "%s(%d)", v.K, int64(v.U))
	case KDouble:
		fmt.Fprintf(sb, "double(%016x)", v.U)
	case KString:
		writeBytes(sb, "str", v.B)
	case KBinary:
		// a nil and an empty byte slice / list / set / map are both "empty": no property pins which of
		// the two a decoder produces, so the canonical form does not distinguish them (the encoder side,
		// where nil decides omission of optional fields, looks at Val.Nil directly)
		writeBytes(sb, "bin", v.B)
	case KList, KSet:
		sb.WriteString(v.K.String() + "[")
		for i, e := range v.L {
			if i > 0 {
				sb.WriteString(",")
			}
			e.canon(sb)
		}
		sb.WriteString("]")
	case KMap:
		ents := make([]string, len(v.M))
		for i, e := range v.M {
			var eb strings.Builder
			e[0].canon(&eb)
			eb.WriteString("=>")
			e[1].canon(&eb)
			ents[i] = eb.String()
		}
		sort.Strings(ents)
		sb.WriteString("map{")
		sb.WriteString(strings.Join(ents, ","))
		sb.WriteString("}")
	case KStruct:
		sb.WriteString("struct{")
		for i, e := range v.F {
			if i > 0 {
				sb.WriteString(";")
			}
			e.canon(sb)
		}
		if len(v.Unk) > 0 {
			fmt.Fprintf(sb, ";unk=%x", v.Unk)
		}
		sb.WriteString("}")
	default:
		panic(fmt.Sprintf("bad kind %d", v.K))
	}
}

// writeBytes renders byte content unambiguously: short printable content
// quoted, anything else as length-prefixed raw bytes (cheap for long strings).
func writeBytes(sb *strings.Builder, tag string, b []byte) {
	if len(b) <= 16 {
		fmt.Fprintf(sb, "%s(%q)", tag, b)
		return
	}
	fmt.Fprintf(sb, "%s#%d(", tag, len(b))
	sb.Write(b)
	sb.WriteString(")")
}

// Short renders Canon truncated for messages.
func (v *Val) Short() string {
	s := v.Canon()
	if len(s) > 400 {
		return s[:400] + fmt.Sprintf("…(%d more)", len(s)-400)
	}
	return s
}

// Zero returns the Go zero value of a type as a Val (nil for pointers).
func Zero(t *Type) *Val {
	if t.Ptr {
		return nil
	}
	return ZeroElem(t)
}

// ZeroElem returns the zero value of t ignoring its pointer bit.
func ZeroElem(t *Type) *Val {
	switch t.Kind {
	case KBinary, KList, KSet, KMap:
		return &Val{K: t.Kind, Nil: true}
	case KStruct:
		return ZeroStruct(t.St)
	}
	return &Val{K: t.Kind}
}

func ZeroStruct(s *Struct) *Val {
	v := &Val{K: KStruct, F: make([]*Val, len(s.Fields))}
	for i, f := range s.Fields {
		v.F[i] = Zero(f.Type)
	}
	return v
}

// InitStruct returns the state of a struct right after the decoder created it:
// zero, then the declared defaults when the type has a default initialiser.
func InitStruct(s *Struct) *Val {
	v := ZeroStruct(s)
	if s.HasInit {
		for i, f := range s.Fields {
			v.F[i] = f.Default.Clone()
		}
	}
	return v
}

// NilRequired reports whether encoding v writes a nil pointer to a struct that declares required
// fields: the encoder writes such a pointer as an empty struct (C02), which the decoder must then
// reject for the missing required fields (C09) - the value is outside the round-trip domain of C01.
func NilRequired(s *Struct, v *Val) bool {
	if v == nil {
		return s.HasRequired()
	}
	for i, f := range s.Fields {
		fv := v.F[i]
		if Omitted(s, f, fv) {
			continue
		}
		if nilRequiredType(f.Type, fv) {
			return true
		}
	}
	return false
}

func nilRequiredType(t *Type, v *Val) bool {
	switch t.Kind {
	case KStruct:
		return NilRequired(t.St, v)
	case KList, KSet:
		if v == nil {
			return false
		}
		for _, e := range v.L {
			if nilRequiredType(t.Elem, e) {
				return true
			}
		}
	case KMap:
		if v == nil {
			return false
		}
		for _, e := range v.M {
			if nilRequiredType(t.Key, e[0]) || nilRequiredType(t.Elem, e[1]) {
				return true
			}
		}
	}
	return false
}
