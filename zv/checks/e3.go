//go:build verife3

package checks

import (
	"bytes"
	"fmt"
	"sort"
	"unsafe"

	"github.com/anishathalye/porcupine"
	freflect "github.com/cloudwego/frugal/internal/reflect"
	"github.com/cloudwego/frugal/internal/verifshim/vsync"
	"github.com/cloudwego/frugal/zverif/bfs"
	"github.com/cloudwego/frugal/zverif/explore"
	"github.com/cloudwego/frugal/zverif/harness"
	"github.com/cloudwego/frugal/zverif/hooks"
	"github.com/cloudwego/frugal/zverif/universe"
)

const e3Available = true

// e3Phases returns the component (explicit-state, engine E3) phases of a property.
func e3Phases(id string) []*harness.Phase {
	switch id {
	case "C06":
		return []*harness.Phase{{Name: "component-allocator", NoShard: true, Custom: e3Span,
			Rule: "explicit-state BFS over the real bump allocator: 19 sizes x 4 alignments per step, depth 4 (thorough 6), state = (offset, block size); invariant on every transition: result aligned, inside the current block, disjoint from everything handed out of that block"}}
	case "C09":
		return []*harness.Phase{{Name: "component-bitset", NoShard: true, Custom: e3Bitset,
			Rule: "explicit-state BFS over the real presence bitset: set/unset/test of 11 boundary ids, to closure (<= depth 12), against a Go map"}}
	case "C11":
		return []*harness.Phase{{Name: "component-unknown-index", NoShard: true, Custom: e3Unknown,
			Rule: "explicit-state BFS over the real unknown-field index: Add of 5 ranges / Reset / Copy, depth 4 (thorough 5), against a byte-slice model"}}
	case "C08":
		return []*harness.Phase{{Name: "component-descmap-linearizability", Bound: 2, Gate: true,
			Rule: "2-3 threads x <=2 Get/Set operations (writers serialised by a lock as the map's contract requires, readers lock-free) on three keys forced into one bucket of the real descriptor map, all interleavings with <=2 preemptions; each history checked for linearizability against a plain map (porcupine)",
			Body: e3DescMap}}
	}
	return nil
}

// e3Replays: replay functions of the BFS phases, by phase name (used by --replay).
var e3Replays = map[string]func(path []int) (string, string){
	"component-allocator":     spanReplay,
	"component-bitset":        bitsetReplay,
	"component-unknown-index": unknownReplay,
}

func init() {
	harness.CustomReplay = func(phase string, choices []int) (string, bool) {
		f := e3Replays[phase]
		if f == nil {
			return "", false
		}
		_, v := f(choices)
		return v, true
	}
}

func e3Report(p *harness.PhaseCtx, prop, what string, r *bfs.Result, describe func([]int) interface{}) {
	p.R.States, p.R.Transitions, p.R.Executions = r.States, r.Transitions, r.Transitions
	p.R.MaxDepth = r.Depth
	p.R.Distinct = r.States
	p.R.CapHit = r.CapHit
	if r.Violation != "" {
		p.R.Failures = append(p.R.Failures, &harness.FailureRec{Property: prop, Phase: p.R.Phase, Class: "component-invariant", Msg: what + ": " + r.Violation,
			Case: map[string]interface{}{"class": "component-invariant", "operations": describe(r.Path)}, Choices: r.Path})
	}
	p.R.Samples = append(p.R.Samples, map[string]interface{}{"component": what, "states": r.States, "transitions": r.Transitions, "depth": r.Depth})
}

// ---- span ----

var spanSizes = []int{1, 2, 3, 7, 8, 9, 15, 16, 17, 255, 256, 257, 1024, 2040, 2041, 2047, 2048, 2049, 4096}
var spanAligns = []int{1, 2, 4, 8}

func spanReplay(path []int) (string, string) {
	type blk struct{ lo, hi uintptr }
	s := freflect.NewVerifSpan()
	var handed []blk
	_, base, _ := s.State()
	for step, op := range path {
		n, al := spanSizes[op/len(spanAligns)], spanAligns[op%len(spanAligns)]
		ptr := uintptr(s.Malloc(n, al))
		off, b, size := s.State()
		if b != base {
			base, handed = b, nil
		}
		if ptr%uintptr(al) != 0 {
			return "", fmt.Sprintf("step %d: Malloc(%d, align %d) returned a misaligned address (mod %d = %d)", step, n, al, al, ptr%uintptr(al))
		}
		if ptr < b || ptr+uintptr(n) > b+uintptr(size) {
			return "", fmt.Sprintf("step %d: Malloc(%d, align %d) returned memory outside the current block (block offset %d, block size %d)", step, n, al, int64(ptr)-int64(b), size)
		}
		for _, h := range handed {
			if ptr < h.hi && h.lo < ptr+uintptr(n) {
				return "", fmt.Sprintf("step %d: Malloc(%d, align %d) overlaps memory handed out earlier from the same block", step, n, al)
			}
		}
		handed = append(handed, blk{ptr, ptr + uintptr(n)})
		if off > size {
			return "", fmt.Sprintf("step %d: offset %d beyond block size %d", step, off, size)
		}
	}
	off, b, size := s.State()
	return fmt.Sprintf("%d/%d/%d", off, size, b%16), ""
}

func e3Span(p *harness.PhaseCtx) {
	depth := 4
	if p.Tier == universe.Thorough {
		depth = 6
	}
	r := bfs.Run(bfs.Config{NumOps: len(spanSizes) * len(spanAligns), MaxDepth: depth, Replay: spanReplay, Deadline: p.Deadline})
	e3Report(p, "C06", "bump allocator", r, func(path []int) interface{} {
		var o []string
		for _, op := range path {
			o = append(o, fmt.Sprintf("Malloc(%d, align %d)", spanSizes[op/len(spanAligns)], spanAligns[op%len(spanAligns)]))
		}
		return o
	})
}

// ---- bitset ----

var bitIDs = []uint16{0, 1, 62, 63, 64, 65, 127, 128, 4095, 4096, 65535}

func bitsetReplay(path []int) (string, string) {
	var b freflect.VerifBitset
	model := map[uint16]bool{}
	for step, op := range path {
		id := bitIDs[op%len(bitIDs)]
		switch op / len(bitIDs) {
		case 0:
			b.Set(id)
			model[id] = true
		case 1:
			b.Unset(id)
			delete(model, id)
		case 2:
			if b.Test(id) != model[id] {
				return "", fmt.Sprintf("step %d: test(%d)=%v, the model says %v", step, id, b.Test(id), model[id])
			}
		}
		for _, x := range bitIDs { // every observed id must agree after every step
			if b.Test(x) != model[x] {
				return "", fmt.Sprintf("step %d: after the operation, test(%d)=%v, the model says %v", step, x, b.Test(x), model[x])
			}
		}
	}
	var ks []int
	for k := range model {
		ks = append(ks, int(k))
	}
	sort.Ints(ks)
	return fmt.Sprint(ks), ""
}

func e3Bitset(p *harness.PhaseCtx) {
	r := bfs.Run(bfs.Config{NumOps: 3 * len(bitIDs), MaxDepth: 12, Replay: bitsetReplay, Deadline: p.Deadline})
	e3Report(p, "C09", "presence bitset", r, func(path []int) interface{} {
		var o []string
		for _, op := range path {
			o = append(o, fmt.Sprintf("%s(%d)", []string{"set", "unset", "test"}[op/len(bitIDs)], bitIDs[op%len(bitIDs)]))
		}
		return o
	})
}

// ---- unknownFields ----

var ufRanges = [][2]int{{0, 4}, {4, 7}, {11, 1}, {3, 20}, {30, 10}}

var ufSrc = func() []byte {
	src := make([]byte, 64)
	for i := range src {
		src[i] = byte(i*7 + 1)
	}
	return src
}()

func unknownReplay(path []int) (string, string) {
	src := ufSrc
	var u freflect.VerifUnknown
	u.Reset()
	var model [][2]int
	for step, op := range path {
		switch {
		case op < len(ufRanges):
			u.Add(ufRanges[op][0], ufRanges[op][1])
			model = append(model, ufRanges[op])
		case op == len(ufRanges):
			u.Reset()
			model = nil
		default:
			var want []byte
			for _, r := range model {
				want = append(want, src[r[0]:r[0]+r[1]]...)
			}
			if u.Size() != len(want) {
				return "", fmt.Sprintf("step %d: Size()=%d, the model says %d", step, u.Size(), len(want))
			}
			got := u.Copy(src)
			if !bytes.Equal(got, want) {
				return "", fmt.Sprintf("step %d: Copy() = %x, the model says %x", step, got, want)
			}
			if len(got) > 0 && uintptr(unsafe.Pointer(&got[0])) >= uintptr(unsafe.Pointer(&src[0])) && uintptr(unsafe.Pointer(&got[0])) < uintptr(unsafe.Pointer(&src[0]))+64 {
				return "", fmt.Sprintf("step %d: Copy() aliases the source buffer", step)
			}
		}
	}
	return fmt.Sprint(model), ""
}

func e3Unknown(p *harness.PhaseCtx) {
	depth := 4
	if p.Tier == universe.Thorough {
		depth = 5
	}
	r := bfs.Run(bfs.Config{NumOps: len(ufRanges) + 2, MaxDepth: depth, Replay: unknownReplay, Deadline: p.Deadline})
	e3Report(p, "C11", "unknown-field index", r, func(path []int) interface{} {
		var o []string
		for _, op := range path {
			switch {
			case op < len(ufRanges):
				o = append(o, fmt.Sprintf("Add(%d,%d)", ufRanges[op][0], ufRanges[op][1]))
			case op == len(ufRanges):
				o = append(o, "Reset")
			default:
				o = append(o, "Copy")
			}
		}
		return o
	})
}

// ---- descriptor map: linearizability under all interleavings ----

type dmInput struct {
	set bool
	key int
	tok int
}

var dmModel = porcupine.Model{
	Init: func() interface{} { return [3]int{-1, -1, -1} },
	Step: func(state, input, output interface{}) (bool, interface{}) {
		st := state.([3]int)
		in := input.(dmInput)
		if in.set {
			st[in.key] = in.tok
			return true, st
		}
		return output.(int) == st[in.key], st
	},
	Equal: func(a, b interface{}) bool { return a.([3]int) == b.([3]int) },
}

func e3DescMap(c *explore.C) {
	nthreads := 2 + c.Choose(2, explore.Data, "threads")
	// per thread: 1-2 operations (three threads: one each), each Get(key) or Set(key, token); tokens are distinct per Set
	type opSpec struct {
		set bool
		key int
	}
	var plan [][]opSpec
	for t := 0; t < nthreads; t++ {
		n := 1 + c.Choose(2, explore.Data, "ops")
		if nthreads == 3 {
			n = 1
		}
		var ops []opSpec
		for i := 0; i < n; i++ {
			k := c.Choose(6, explore.Data, "op")
			ops = append(ops, opSpec{set: k >= 3, key: k % 3})
		}
		plan = append(plan, ops)
	}
	c.Gate()
	harness.Cur.Crumb(c.Choices())
	m := freflect.NewVerifDescMap(16)
	keys := []uintptr{0x1230, 0x1230 + (freflect.VerifDescMapBuckets + 1), 0x1230 + 2*(freflect.VerifDescMapBuckets+1)} // one bucket
	var clock int64
	var wmu vsync.Mutex
	var history []porcupine.Operation
	bodies := make([]func(), nthreads)
	tok := 0
	for t := range plan {
		t := t
		toks := make([]int, len(plan[t]))
		for i := range toks {
			toks[i] = tok
			tok++
		}
		bodies[t] = func() {
			for i, op := range plan[t] {
				clock++
				call := clock
				in := dmInput{set: op.set, key: op.key, tok: toks[i]}
				out := 0
				if op.set {
					// the map's contract: writers are serialised by the caller (frugal holds its registration lock), readers are lock-free
					wmu.Lock()
					m.Set(keys[op.key], toks[i])
					wmu.Unlock()
				} else {
					out = m.Get(keys[op.key])
				}
				clock++
				history = append(history, porcupine.Operation{ClientId: t, Input: in, Call: call, Output: out, Return: clock})
			}
		}
	}
	run := hooks.RunThreads(c, 2000, nil, bodies...)
	cs := func(class string) *harness.Case {
		return &harness.Case{Property: "C08", Class: class, Type: "descriptor map component", Detail: map[string]interface{}{"plan": fmt.Sprint(plan), "history": fmt.Sprint(history)}}
	}
	if run.Deadlock != "" || run.Livelock {
		c.Fail("descriptor map operations deadlock/livelock: "+run.Deadlock, cs("deadlock"))
		return
	}
	for t, th := range run.Threads() {
		if th.Panic != nil {
			c.Fail(fmt.Sprintf("thread %d panics: %v", t, th.Panic), cs("panic"))
			return
		}
	}
	if !porcupine.CheckOperations(dmModel, history) {
		c.Fail("the call/return history of concurrent Get/Set on one bucket is not linearizable", cs("not-linearizable"))
		return
	}
	harness.Cur.Outcome(harness.Hash64([]byte(fmt.Sprint(plan)), []byte(fmt.Sprint(c.Choices()))), fmt.Sprintf("threads=%d", nthreads))
	harness.Cur.Sample(func() interface{} {
		return map[string]interface{}{"plan": fmt.Sprint(plan), "history_len": len(history)}
	})
}
