package checks

import (
	"bytes"
	"fmt"
	"reflect"
	"strings"
	"unsafe"

	"github.com/cloudwego/frugal/zverif/explore"
	"github.com/cloudwego/frugal/zverif/harness"
	"github.com/cloudwego/frugal/zverif/hooks"
	"github.com/cloudwego/frugal/zverif/ref"
	"github.com/cloudwego/frugal/zverif/universe"
)

var namedSpec = func() *ref.Struct {
	s := universe.StaticSpec(reflect.TypeOf(universe.Named{}), "Named", []*ref.Field{
		{Name: "A", ID: 1, Req: ref.ReqDefault, Type: universe.Sc(ref.KI32)},
		{Name: "B", ID: 2, Req: ref.ReqOptional, Type: &ref.Type{Kind: ref.KString, Ptr: true}},
	})
	return s
}()

var c12Styles = []string{"frugal", "thrift", "frugal+conflicting-thrift", "minimal", "spaces+byte", "thrift-minimal-spaces", "qualified-names", "zero-padded-ids", "typeless-with-options"}

// derivable: the annotation may be omitted (no list/set/enum inside).
func derivable(t *ref.Type) bool {
	switch t.Kind {
	case ref.KList, ref.KSet, ref.KEnum:
		return false
	case ref.KMap:
		return derivable(t.Key) && derivable(t.Elem)
	}
	return true
}

func spellAnnot(t *ref.Type, style int) string {
	sp := style == 4 || style == 5
	j := func(parts ...string) string {
		if sp {
			return strings.Join(parts, " ")
		}
		return strings.Join(parts, "")
	}
	switch t.Kind {
	case ref.KI8:
		if style == 4 {
			return "byte"
		}
	case ref.KEnum:
		// enums are spelled by name like structs: package-qualified as generators do for included IDL files
		if style == 6 {
			return "universe." + t.Annot()
		}
		if style == 4 {
			return "some_pkg . " + t.Annot()
		}
	case ref.KStruct:
		if t.St.Name != "" {
			if style == 6 {
				return "universe." + t.St.Name
			}
			if style == 4 {
				return "some_pkg . " + t.St.Name
			}
			return t.St.Name
		}
		return "S"
	case ref.KList:
		return j("list", "<", spellAnnot(t.Elem, style), ">")
	case ref.KSet:
		return j("set", "<", spellAnnot(t.Elem, style), ">")
	case ref.KMap:
		return j("map", "<", spellAnnot(t.Key, style), ":", spellAnnot(t.Elem, style), ">")
	}
	return t.Annot()
}

func spellTag(f *ref.Field, style int) string {
	ann := spellAnnot(f.Type, style)
	opt := ""
	if f.NoCopy {
		opt = ",nocopy"
	}
	canon := fmt.Sprintf("%d,%s,%s%s", f.ID, f.Req, ann, opt)
	minimal := canon
	if derivable(f.Type) && !f.NoCopy {
		if f.Req == ref.ReqDefault {
			minimal = fmt.Sprintf("%d", f.ID)
		} else {
			minimal = fmt.Sprintf("%d,%s", f.ID, f.Req)
		}
	}
	switch style {
	case 7:
		// ids are decimal numbers however they are padded ("010" is ten, not eight)
		return `frugal:"` + fmt.Sprintf("%05d", f.ID) + canon[strings.Index(canon, ","):] + `"`
	case 8:
		// the type descriptor may be left out (when derivable) even when options follow
		if derivable(f.Type) && f.NoCopy {
			return `frugal:"` + fmt.Sprintf("%d,%s,,nocopy", f.ID, f.Req) + `"`
		}
		return `frugal:"` + minimal + `"`
	case 1:
		return `thrift:"` + strings.ToLower(f.Name) + "," + canon + `"`
	case 2:
		other := "required"
		if f.Req == ref.ReqRequired {
			other = "optional"
		}
		return `frugal:"` + canon + `" thrift:"` + f.Name + fmt.Sprintf(",%d,%s,list<double>", (int(f.ID)+1000)%65536, other) + `"`
	case 3:
		return `frugal:"` + minimal + `"`
	case 4:
		return `frugal:" ` + strings.ReplaceAll(canon, ",", " , ") + ` "`
	case 5:
		return `thrift:" any_name , ` + strings.ReplaceAll(minimal, ",", " ,  ") + `  "`
	}
	return `frugal:"` + canon + `"`
}

// spelled deep-copies the spec and builds its Go type with the given tag style and decoy fields.
func spelled(s *ref.Struct, style int, decoys bool, salt string) *ref.Struct {
	if s.Name != "" {
		return s // static named struct: its tags are compiled in
	}
	c := &ref.Struct{Unknown: s.Unknown, HasInit: s.HasInit}
	var sf []reflect.StructField
	if decoys {
		sf = append(sf,
			reflect.StructField{Name: "Decoy0", Type: reflect.TypeOf(int32(0))},
			reflect.StructField{Name: "decoy1", PkgPath: "github.com/cloudwego/frugal/zverif/universe", Type: reflect.TypeOf(""), Tag: `frugal:"77,default,string"`},
			reflect.StructField{Name: "Emb", Anonymous: true, Type: reflect.TypeOf(universe.Emb{}), Tag: `frugal:"79,default,Emb"`},
		)
	}
	for i, f := range s.Fields {
		nf := *f
		nf.Type = spelledType(f.Type, style, decoys, salt)
		nf.Name = fmt.Sprintf("F%d", i)
		nf.GoIdx = len(sf)
		tag := spellTag(&nf, style)
		if salt != "" {
			tag += ` vz:"` + salt + `"`
		}
		sf = append(sf, reflect.StructField{Name: nf.Name, Type: universe.GoType(nf.Type), Tag: reflect.StructTag(tag)})
		if decoys && i == 0 {
			sf = append(sf, reflect.StructField{Name: "Decoy2", Type: reflect.TypeOf([]string(nil))})
		}
		c.Fields = append(c.Fields, &nf)
	}
	if s.Unknown {
		c.UnkIdx = len(sf)
		sf = append(sf, reflect.StructField{Name: "_unknownFields", PkgPath: "github.com/cloudwego/frugal/zverif/universe", Type: reflect.TypeOf([]byte(nil))})
	}
	c.GoType = reflect.StructOf(sf)
	return c
}

func spelledType(t *ref.Type, style int, decoys bool, salt string) *ref.Type {
	c := *t
	if t.St != nil {
		c.St = spelled(t.St, style, decoys, salt)
	}
	if t.Elem != nil {
		c.Elem = spelledType(t.Elem, style, decoys, salt)
	}
	if t.Key != nil {
		c.Key = spelledType(t.Key, style, decoys, salt)
	}
	return &c
}

func c12Family(tier universe.Tier) *family {
	return cached(fmt.Sprint("c12", tier), func() *family {
		f := &family{name: "tag-grammar"}
		depth := 2
		for i, t := range universe.T(3) {
			if i >= 132 && tier == universe.Quick && i%11 != 0 {
				continue // depth-3 annotations: every 11th in quick
			}
			_ = depth
			for _, sh := range universe.Shells(t) {
				f.items = append(f.items, universe.One(t, sh, uint16(1+i%300)))
			}
		}
		// named structs in every position
		np, nv := universe.StPtr(namedSpec), universe.StVal(namedSpec)
		for _, t := range []*ref.Type{np, nv, universe.ListOf(np), universe.SetOf(nv), universe.MapOf(universe.Sc(ref.KString), np), universe.MapOf(np, universe.ListOf(nv)), universe.ListOf(universe.MapOf(universe.Sc(ref.KI8), nv))} {
			f.items = append(f.items, mk(fd(4, ref.ReqDefault, t), fd(9, ref.ReqOptional, universe.Sc(ref.KI8))))
		}
		// the named int64 type as enum and as plain i64 (the annotation alone decides), also side by side
		en, ni := universe.Sc(ref.KEnum), &ref.Type{Kind: ref.KI64, Named: true}
		for _, pair := range [][2]*ref.Type{{en, ni}, {ni, en}, {universe.ListOf(en), universe.ListOf(ni)}, {universe.MapOf(ni, universe.Sc(ref.KString)), universe.MapOf(en, universe.Sc(ref.KString))},
			{universe.MapOf(universe.Sc(ref.KI8), universe.SetOf(ni)), universe.MapOf(universe.Sc(ref.KI8), universe.SetOf(en))}} {
			f.items = append(f.items, mk(fd(1, ref.ReqDefault, pair[0]), fd(2, ref.ReqDefault, pair[1])), mk(fd(5, ref.ReqRequired, pair[1])))
		}
		f.items = append(f.items, denseIDs().items...)
		// named string / byte-slice Go types behave like string / binary, with and without nocopy
		ns, nb := &ref.Type{Kind: ref.KString, Named: true}, &ref.Type{Kind: ref.KBinary, Named: true}
		for _, noc := range []bool{false, true} {
			x := mk(fd(1, ref.ReqDefault, ns), fd(2, ref.ReqOptional, nb), fd(3, ref.ReqOptional, &ref.Type{Kind: ref.KString, Named: true, Ptr: true}), fd(4, ref.ReqDefault, universe.ListOf(ns)), fd(5, ref.ReqDefault, universe.MapOf(ns, nb)))
			x.Fields[0].NoCopy, x.Fields[1].NoCopy, x.Fields[2].NoCopy = noc, noc, noc
			f.items = append(f.items, x)
		}
		// nocopy and multi-field
		nc := mk(fd(1, ref.ReqDefault, universe.Sc(ref.KString)), fd(2, ref.ReqRequired, universe.Sc(ref.KBinary)), fd(3, ref.ReqOptional, universe.Sc(ref.KI8)))
		nc.Fields[0].NoCopy = true
		f.items = append(f.items, nc)
		return f
	})
}

func init() {
	harness.Register(&harness.Check{
		ID:          "C12",
		Level:       "model_checking",
		Explanation: "Bounded exhaustive enumeration (E1): every schema of the tag-grammar family (single fields over T2 and a slice of T3 in every shell, named structs in every position, nocopy) x 9 equivalent tag spellings (frugal / thrift / frugal with a conflicting thrift tag / omitted requiredness and annotation / spaces and byte / thrift minimal with spaces / package-qualified names / zero-padded ids / omitted annotation followed by options) x with and without decoy fields (untagged, unexported-but-tagged, embedded-with-tagged-field). For each: the reference tag parser must read the generator's schema back from the built Go type (else harness error); the real encoder/decoder must agree with the reference model driven by the generator's schema for every alphabet value; decoys never reach the wire and are never written.",
		Assumptions: []string{"go1.23.5 toolchain", "tag language = DESIGN.md Appendix A; leniencies outside it are never generated"},
		Phases: func(tier universe.Tier) []*harness.Phase {
			return []*harness.Phase{{
				Name: "spellings",
				Rule: "schemas x 7 spellings x {no decoys, decoys}; one execution covers the schema's value alphabet (up to 12 values); distinct by (Go type string, spelling)",
				Body: func(c *explore.C) { c12Body(c, tier) },
			}}
		},
	})
}

func c12Body(c *explore.C, tier universe.Tier) {
	fam := c12Family(tier)
	ti := c.Choose(len(fam.items), explore.Data, "schema")
	style := c.Choose(len(c12Styles), explore.Data, "spelling")
	decoys := c.Bool(explore.Data, "decoys")
	harness.Cur.Crumb(c.Choices())
	hooks.Reset()
	gen := fam.items[ti]
	s := spelled(gen, style, decoys, "")
	// the independent tag parser must read the generator's schema from the Go type
	parsed, err := ref.ParseTags(s.GoType)
	if err != nil || parsed.String() != gen.String() {
		panic(fmt.Sprintf("harness error: reference tag parser reads %v / %v, generator schema is %s; Go type %s", parsed, err, gen, s.GoType))
	}
	how := fmt.Sprintf("spelling=%s decoys=%v type=%s", c12Styles[style], decoys, s.GoType)
	vals := valuesOf(gen, tier)
	if len(vals) > 12 {
		step := len(vals) / 12
		var sel []*ref.Val
		for i := 0; i < len(vals); i += step {
			sel = append(sel, vals[i])
		}
		vals = sel
	}
	setDecoys := func(p reflect.Value) {
		if !decoys {
			return
		}
		e := p.Elem()
		e.FieldByName("Decoy0").SetInt(0x5a5a5a5a)
		f := e.FieldByName("decoy1")
		reflect.NewAt(f.Type(), unsafe.Pointer(f.UnsafeAddr())).Elem().SetString("decoy-one")
		e.FieldByName("Emb").FieldByName("EX").SetInt(0x0e0e0e0e)
		e.FieldByName("Decoy2").Set(reflect.ValueOf([]string{"decoy", "two"}))
	}
	decoysIntact := func(p reflect.Value) bool {
		if !decoys {
			return true
		}
		e := p.Elem()
		d2 := e.FieldByName("Decoy2")
		return e.FieldByName("Decoy0").Int() == 0x5a5a5a5a && e.FieldByName("decoy1").String() == "decoy-one" &&
			e.FieldByName("Emb").FieldByName("EX").Int() == 0x0e0e0e0e && d2.Len() == 2 && d2.Index(1).String() == "two"
	}
	for _, v := range vals {
		src := universe.New(s, v)
		setDecoys(src)
		want := ref.Encode(gen, v)
		buf := make([]byte, len(want)+64)
		r := Enc(buf, src.Interface())
		if r.Panic != nil || r.Err != nil {
			c.Fail(fmt.Sprintf("EncodeObject rejects an equivalent spelling: %v [%s]", r, how), mkCase("C12", "spelling-rejected", gen, v, nil, how))
			return
		}
		gc, err := ref.Canonical(buf[:r.N])
		wc, _ := ref.Canonical(want)
		if err != nil || !bytes.Equal(gc, wc) {
			c.Fail("encoding under this spelling differs from the schema the tags declare ["+how+"]", mkCase("C12", "schema-mismatch", gen, v, buf[:r.N], map[string]string{"reference": hx(want), "how": how}))
			return
		}
		if sz := Size(src.Interface()); sz.Panic != nil || sz.N != len(want) {
			c.Fail(fmt.Sprintf("EncodedSize %v want %d [%s]", sz, len(want), how), mkCase("C12", "size-mismatch", gen, v, nil, how))
			return
		}
		dst := universe.New(s, nil)
		setDecoys(dst)
		d := Dec(want, dst.Interface())
		exp := ref.Decode(gen, want, nil, ref.DecOpts{})
		if d.Panic != nil || d.Err != nil || d.N != exp.N {
			c.Fail(fmt.Sprintf("DecodeObject under this spelling: %v [%s]", d, how), mkCase("C12", "decode-failed", gen, v, want, how))
			return
		}
		if g := universe.ReadStruct(s, dst.Elem()); g.Canon() != exp.V.Canon() {
			c.Fail("decoded value under this spelling differs from the reference ["+how+"]", mkCase("C12", "value-mismatch", gen, v, want, map[string]string{"got": g.Short(), "want": exp.V.Short(), "how": how}))
			return
		}
		if !decoysIntact(dst) || !decoysIntact(src) {
			c.Fail("a field that is untagged, unexported or embedded was written ["+how+"]", mkCase("C12", "decoy-written", gen, v, want, how))
			return
		}
	}
	harness.Cur.Evals(int64(len(vals)))
	harness.Cur.Outcome(harness.Hash64([]byte(s.GoType.String())), c12Styles[style])
	harness.Cur.Sample(func() interface{} {
		return map[string]interface{}{"schema": gen.String(), "go_type": s.GoType.String()}
	})
}
