// Command verifplain runs the checks whose subject is the unmodified production
// build of frugal (no overlay, no build tags): C17 (legacy controls are inert:
// environment at process start, deprecated calls) and C18 (allocation counts).
package main

import (
	"os"

	"github.com/cloudwego/frugal/zverif/harness"
	"github.com/cloudwego/frugal/zverif/plainchecks"
)

func main() {
	if len(os.Args) > 1 && os.Args[1] == "--c17-child" {
		plainchecks.C17Child(os.Args[2:])
		return
	}
	harness.Main()
}
