#!/bin/sh
# validates MANIFEST.json and every evidence file against the schemas
python3-vt - <<'PY'
import json,jsonschema,glob,sys
m=json.load(open('/verif/MANIFEST.json')); jsonschema.validate(m,json.load(open('/root/.vp/MANIFEST.schema.json')))
es=json.load(open('/root/.vp/EVIDENCE.schema.json'))
for f in sorted(glob.glob('/verif/evidence/*.json')):
    jsonschema.validate(json.load(open(f)),es)
print('valid: manifest +',len(glob.glob('/verif/evidence/*.json')),'evidence files')
PY
