package checks

import (
	"errors"
	"fmt"

	gthrift "github.com/cloudwego/gopkg/protocol/thrift"

	"github.com/cloudwego/frugal/zverif/explore"
	"github.com/cloudwego/frugal/zverif/harness"
	"github.com/cloudwego/frugal/zverif/hooks"
	"github.com/cloudwego/frugal/zverif/ref"
	"github.com/cloudwego/frugal/zverif/universe"
)

// nesting steps of the recursive type universe.R
type c15Step struct {
	name   string
	open   []byte // bytes before the nested struct
	close  []byte // bytes after the nested struct, before the enclosing struct's STOP
	levels int    // container/struct levels this step adds
}

var c15Steps = []c15Step{
	{"S", []byte{12, 0, 1}, nil, 1},
	{"L", []byte{15, 0, 2, 12, 0, 0, 0, 1}, nil, 2},
	{"T", []byte{14, 0, 3, 12, 0, 0, 0, 1}, nil, 2},
	{"MV", []byte{13, 0, 4, 8, 12, 0, 0, 0, 1, 0, 0, 0, 42}, nil, 2},
	{"MK", []byte{13, 0, 5, 12, 8, 0, 0, 0, 1}, []byte{0, 0, 0, 7}, 2},
	{"LL", []byte{15, 0, 6, 15, 0, 0, 0, 1, 12, 0, 0, 0, 1}, nil, 3},
}

// c15Words: all cyclic words of period <= maxPeriod over the six steps.
func c15Words(maxPeriod int) [][]int {
	var out [][]int
	var rec func(cur []int, n int)
	rec = func(cur []int, n int) {
		if len(cur) == n {
			out = append(out, append([]int{}, cur...))
			return
		}
		for i := range c15Steps {
			rec(append(cur, i), n)
		}
	}
	for p := 1; p <= maxPeriod; p++ {
		rec(nil, p)
	}
	return out
}

// c15Message builds the message whose nesting follows word cyclically for `steps` steps.
// unknown=true places the whole nest under field id 99 (not known to the reader).
func c15Message(word []int, steps int, unknown bool) ([]byte, int) {
	var b []byte
	levels := 1 // the top-level struct
	var closes [][]byte
	for i := 0; i < steps; i++ {
		st := c15Steps[word[i%len(word)]]
		op := st.open
		if unknown && i == 0 {
			op = append([]byte{}, op...)
			op[1], op[2] = 0, 99
		}
		b = append(b, op...)
		closes = append(closes, st.close)
		levels += st.levels
	}
	b = append(b, 0) // innermost empty struct
	for i := steps - 1; i >= 0; i-- {
		b = append(b, closes[i]...)
		b = append(b, 0) // STOP of the struct that holds step i's field
	}
	return b, levels
}

// c15Walk checks that the decoded R is exactly the nest of the word.
func c15Walk(r *universe.R, word []int, steps int) string {
	cur := r
	for i := 0; i < steps; i++ {
		if cur == nil {
			return fmt.Sprintf("nil at step %d", i)
		}
		switch c15Steps[word[i%len(word)]].name {
		case "S":
			cur = cur.S
		case "L":
			if len(cur.L) != 1 {
				return fmt.Sprintf("step %d: list has %d elements", i, len(cur.L))
			}
			cur = cur.L[0]
		case "T":
			if len(cur.T) != 1 {
				return fmt.Sprintf("step %d: set has %d elements", i, len(cur.T))
			}
			cur = cur.T[0]
		case "MV":
			if len(cur.MV) != 1 || cur.MV[42] == nil {
				return fmt.Sprintf("step %d: map value missing", i)
			}
			cur = cur.MV[42]
		case "MK":
			if len(cur.MK) != 1 {
				return fmt.Sprintf("step %d: map has %d keys", i, len(cur.MK))
			}
			for k, v := range cur.MK {
				if v != 7 {
					return fmt.Sprintf("step %d: map value %d", i, v)
				}
				cur = k
			}
		case "LL":
			if len(cur.LL) != 1 || len(cur.LL[0]) != 1 {
				return fmt.Sprintf("step %d: list of list shape", i)
			}
			cur = cur.LL[0][0]
		}
	}
	if cur == nil {
		return "innermost struct is nil"
	}
	if cur.S != nil || cur.L != nil || cur.T != nil || cur.MV != nil || cur.MK != nil || cur.LL != nil || cur.X != 0 {
		return "innermost struct is not empty"
	}
	return ""
}

func isDepthErr(err error) bool {
	var pe *gthrift.ProtocolException
	return errors.As(err, &pe) && pe.TypeID() == gthrift.DEPTH_LIMIT
}

func c15Depths(tier universe.Tier, unknown bool) []int {
	var ds []int
	top := 2200
	if unknown {
		top = 200
	}
	for d := 1; d <= top; d++ {
		if tier == universe.Thorough || d <= 140 || d%9 == 0 || (d >= 330 && d <= 350) || (d >= 505 && d <= 520) || (d >= 1015 && d <= 1030) {
			ds = append(ds, d)
		}
	}
	return ds
}

func init() {
	harness.Register(&harness.Check{
		ID:          "C15",
		Level:       "model_checking",
		Explanation: "Bounded exhaustive enumeration (E1): the recursive type R nested along every cyclic word of period <= 2 (thorough 3) over {struct, list, set, map value, map key, list of list}, every depth up to 2200 steps (quick: all <= 140, every 9th above plus windows around observed thresholds), plus 10^4..10^6 steps for period-1 words, in a known-field and in an unknown-field position. One explorer execution = one word, all its depths; the oracle is success-and-correct or DEPTH_LIMIT, monotone in depth, accept <= 48 levels, reject beyond the bound.",
		Assumptions: []string{"go1.23.5 toolchain, default goroutine stack limit", "levels = number of nested structs and containers including the top-level struct", "bound for schema-parsed nesting: anything > 1023 levels must be rejected; for skipped unknown fields: value nesting > 65 must be rejected"},
		Phases: func(tier universe.Tier) []*harness.Phase {
			return []*harness.Phase{
				{Name: "known-nesting", Rule: "cyclic words x depths, nest under known fields of R; distinct by (word, verdict profile)", Body: func(c *explore.C) { c15Body(c, tier, false) }},
				{Name: "wide-shallow", Rule: "messages 2-6 levels deep whose containers hold N in {1,2,100,1021..1025,2100,5000} strings / structs / lists / map entries, known and unknown position: all must be accepted (well inside 48 levels), whatever their width", Body: func(c *explore.C) { c15Wide(c, tier) }},
				{Name: "wide-deep", Rule: "a recursive record with 24 variable-size fields before its link to the next level, nested 1..46 levels with all / none / every third field present: at most 48 levels, must be accepted and decoded correctly however wide each level is", Body: func(c *explore.C) { c15WideDeep(c, tier) }},
				{Name: "unknown-nesting", Rule: "cyclic words x depths 1..200, the nest placed under an unknown field id (skipped by the dependency's skipper, bound 64)", Body: func(c *explore.C) { c15Body(c, tier, true) }},
				{Name: "unknown-containers", Rule: "an unknown field whose value nests containers directly in containers (7 forms over list / set / map-by-value / map-by-key and mixtures) x depths 1..200, 1000, 20000 (10^6 for two forms) x two reader types (the recursive record, a one-field struct): accepted up to 48 levels, rejected with a depth-limit error beyond 65, monotone in between", Body: func(c *explore.C) { c15Pure(c, tier) }},
			}
		},
	})
}

func c15Body(c *explore.C, tier universe.Tier, unknown bool) {
	period := 2
	if tier == universe.Thorough {
		period = 3
	}
	words := c15Words(period)
	wi := c.Choose(len(words), explore.Data, "word")
	word := words[wi]
	harness.Cur.Crumb(c.Choices())
	hooks.Reset()
	depths := c15Depths(tier, unknown)
	if len(word) == 1 {
		depths = append(depths, 10000, 100000, 1000000)
	}
	name := ""
	for _, s := range word {
		name += c15Steps[s].name + "."
	}
	firstReject, lastAccept, maxAcceptLevels := 0, 0, 0
	for _, d := range depths {
		msg, levels := c15Message(word, d, unknown)
		var r Res
		var walk string
		if unknown {
			dst := &universe.RU{}
			r = Dec(msg, dst)
		} else {
			dst := &universe.R{}
			r = Dec(msg, dst)
			if r.Err == nil && r.Panic == nil {
				walk = c15Walk(dst, word, d)
			}
		}
		cs := func(class string) *harness.Case {
			return &harness.Case{Property: "C15", Class: class, Type: "universe.R (recursive)", Detail: map[string]interface{}{"word": name, "steps": d, "levels": levels, "unknown_position": unknown, "result": r.String(), "message_bytes": len(msg)}}
		}
		valueLevels := levels
		if unknown {
			valueLevels = levels - 1 // nesting of the skipped value itself
		}
		switch {
		case r.Panic != nil:
			c.Fail(fmt.Sprintf("DecodeObject panics on a %d-level message (%s): %v", levels, name, r.Panic), cs("panic"))
			return
		case r.Err == nil:
			if r.N != len(msg) || walk != "" {
				c.Fail(fmt.Sprintf("accepted %d-level message decoded wrongly (%s): n=%d of %d %s", levels, name, r.N, len(msg), walk), cs("wrong-value"))
				return
			}
			if firstReject != 0 {
				c.Fail(fmt.Sprintf("acceptance is not monotone: %d steps rejected but %d steps accepted (%s)", firstReject, d, name), cs("not-monotone"))
				return
			}
			if !unknown && levels > 1023 || unknown && valueLevels > 65 {
				c.Fail(fmt.Sprintf("a message nested %d levels deep is accepted (%s)", levels, name), cs("too-deep-accepted"))
				return
			}
			lastAccept = d
			if levels > maxAcceptLevels {
				maxAcceptLevels = levels
			}
		default:
			if !isDepthErr(r.Err) {
				c.Fail(fmt.Sprintf("a well-formed %d-level message is rejected with an error that is not a depth-limit protocol error (%s): %v", levels, name, r.Err), cs("wrong-error"))
				return
			}
			if levels <= 48 {
				c.Fail(fmt.Sprintf("a message nested only %d levels deep is rejected (%s): %v", levels, name, r.Err), cs("shallow-rejected"))
				return
			}
			if firstReject == 0 {
				firstReject = d
			}
		}
	}
	harness.Cur.Evals(int64(len(depths)))
	harness.Cur.Outcome(harness.Hash64([]byte(name), []byte{byte(lastAccept), byte(lastAccept >> 8)}), fmt.Sprintf("max-accepted-levels=%d", maxAcceptLevels))
	harness.Cur.Sample(func() interface{} {
		return map[string]interface{}{"word": name, "depths_tried": len(depths), "last_accepted_steps": lastAccept, "first_rejected_steps": firstReject, "max_accepted_levels": maxAcceptLevels, "unknown_position": unknown}
	})
}

var c15Widths = []int{1, 2, 100, 1021, 1022, 1023, 1024, 1025, 2100, 5000}

// c15Wide: shallow but wide messages must be accepted: the depth budget is per level, not per element.
func c15Wide(c *explore.C, tier universe.Tier) {
	shape := c.Choose(6, explore.Data, "shape")
	n := c15Widths[c.Choose(len(c15Widths), explore.Data, "width")]
	depth := 1 + c.Choose(3, explore.Data, "steps-above")
	unknown := c.Bool(explore.Data, "unknown-position")
	harness.Cur.Crumb(c.Choices())
	hooks.Reset()
	// innermost wide container placed in a field of R after `depth` S-steps
	id := byte([]int{2, 3, 4, 5, 6, 2}[shape])
	if unknown {
		id = 99
	}
	var in []byte
	cnt := []byte{byte(n >> 24), byte(n >> 16), byte(n >> 8), byte(n)}
	switch shape {
	case 0, 5: // list<R> of n empty structs (shape 5: each element holds X=1)
		in = append([]byte{15, 0, id, 12}, cnt...)
		for i := 0; i < n; i++ {
			if shape == 5 {
				in = append(in, 8, 0, 7, 0, 0, 0, 1)
			}
			in = append(in, 0)
		}
	case 1: // set<R>
		in = append([]byte{14, 0, id, 12}, cnt...)
		for i := 0; i < n; i++ {
			in = append(in, 0)
		}
	case 2: // map<i32:R>
		in = append([]byte{13, 0, id, 8, 12}, cnt...)
		for i := 0; i < n; i++ {
			in = append(in, byte(i>>24), byte(i>>16), byte(i>>8), byte(i), 0)
		}
	case 3: // map<R:i32> (pointer keys)
		in = append([]byte{13, 0, id, 12, 8}, cnt...)
		for i := 0; i < n; i++ {
			in = append(in, 0, 0, 0, 0, 1)
		}
	case 4: // list<list<R>> with n inner lists of one struct
		in = append([]byte{15, 0, id, 15}, cnt...)
		for i := 0; i < n; i++ {
			in = append(in, 12, 0, 0, 0, 1, 0)
		}
	}
	var msg []byte
	for i := 0; i < depth; i++ {
		msg = append(msg, 12, 0, 1)
	}
	msg = append(msg, in...)
	msg = append(msg, 0)
	for i := 0; i < depth; i++ {
		msg = append(msg, 0)
	}
	dst := &universe.R{}
	r := Dec(msg, dst)
	cs := &harness.Case{Property: "C15", Class: "shallow-rejected", Type: "universe.R (recursive)", Detail: map[string]interface{}{"shape": shape, "width": n, "struct_steps_above": depth, "unknown_position": unknown, "result": r.String()}}
	if r.Panic != nil || r.Err != nil || r.N != len(msg) {
		if r.Panic != nil {
			cs.Class = "panic"
		}
		c.Fail(fmt.Sprintf("a message only %d levels deep but %d elements wide is not accepted: %v", depth+3, n, r), cs)
		return
	}
	if !unknown {
		cur := dst
		for i := 0; i < depth; i++ {
			cur = cur.S
		}
		got := []int{len(cur.L), len(cur.T), len(cur.MV), len(cur.MK), len(cur.LL), len(cur.L)}[shape]
		if got != n {
			cs.Class = "wrong-value"
			c.Fail(fmt.Sprintf("wide container decoded with %d of %d elements", got, n), cs)
			return
		}
	}
	harness.Cur.Outcome(harness.Hash64([]byte{byte(shape), byte(n), byte(n >> 8), byte(depth)}, []byte(fmt.Sprint(unknown))), fmt.Sprintf("shape%d", shape))
}

func c15WideDeep(c *explore.C, tier universe.Tier) {
	depth := 1 + c.Choose(46, explore.Data, "levels")
	fill := c.Choose(3, explore.Data, "fields-present")
	harness.Cur.Crumb(c.Choices())
	hooks.Reset()
	s := universe.RWideSpec()
	var build func(level int) *ref.Val
	build = func(level int) *ref.Val {
		v := ref.ZeroStruct(s)
		for i, f := range s.Fields {
			if f.Type.Kind == ref.KStruct {
				if level < depth {
					v.F[i] = build(level + 1)
				}
				continue
			}
			if fill == 0 || fill == 2 && i%3 == 0 {
				v.F[i] = universe.Nth(f.Type, level+i)
			}
		}
		return v
	}
	v := build(1)
	msg := ref.Encode(s, v)
	dv := decodeAndCompare(s, msg, decodeOpts{})
	if dv.Class != "" {
		c.Fail(fmt.Sprintf("a message %d levels deep (<= 48) with wide records is not decoded correctly: %s", depth+1, dv.Msg),
			&harness.Case{Property: "C15", Class: "shallow-rejected", Type: "universe.RWide (recursive, 26 fields)", Detail: map[string]interface{}{"levels": depth + 1, "fields_present": fill, "verdict": dv.detail(), "message_bytes": len(msg)}})
		return
	}
	harness.Cur.Outcome(harness.Hash64([]byte{byte(depth), byte(fill)}), fmt.Sprintf("fill%d", fill))
}
