package checks

import (
	"bytes"
	"fmt"

	"github.com/cloudwego/frugal/zverif/explore"
	"github.com/cloudwego/frugal/zverif/harness"
	"github.com/cloudwego/frugal/zverif/hooks"
	"github.com/cloudwego/frugal/zverif/ref"
	"github.com/cloudwego/frugal/zverif/universe"
)

// Phase "declaration-order": a default-initialised type whose Go declaration order differs from its
// id order, every field independently at {its own default, the default of its neighbour of the
// same kind, another value}, nested where the decoder creates structs - including as a map KEY.

func init() {
	ck := harness.Lookup("C10")
	old := ck.Phases
	ck.Phases = func(tier universe.Tier) []*harness.Phase {
		return append(old(tier), &harness.Phase{
			Name: "declaration-order",
			Rule: "static type with 6 optional fields declared out of id order and pairwise different defaults: 3^6 value patterns (own default / the neighbour's default / another value) x 5 positions (top, pointer field, list element, map key, by-value map value); omission by the reference rule, size, round trip with declared defaults restored",
			Body: c10Rev,
		})
	}
}

func c10Rev(c *explore.C) {
	var ch [6]int
	for i := range ch {
		ch[i] = c.Choose(3, explore.Data, "field-value")
	}
	pos := []string{"top", "P", "L", "K", "MV"}[c.Choose(5, explore.Data, "position")]
	harness.Cur.Crumb(c.Choices())
	hooks.Reset()
	d, o := universe.DfltRevSpecs()
	// fields come in same-kind pairs (1,2) (3,4) (5,6): the neighbour is the other of the pair
	val := &ref.Val{K: ref.KStruct, F: make([]*ref.Val, 6)}
	for i, f := range d.Fields {
		switch ch[i] {
		case 0:
			val.F[i] = f.Default.Clone()
		case 1:
			val.F[i] = d.Fields[i^1].Default.Clone()
		default:
			val.F[i] = universe.Nth(f.Type, 11+i)
		}
	}
	dfl := ref.InitStruct(d)
	S, V := d, val
	if pos != "top" {
		V = ref.ZeroStruct(o)
		V.F[1], V.F[2], V.F[3] = &ref.Val{K: ref.KList, L: []*ref.Val{}}, &ref.Val{K: ref.KMap}, &ref.Val{K: ref.KMap}
		switch pos {
		case "P":
			V.F[0] = val
		case "L":
			V.F[1] = ref.List(ref.KList, val, dfl)
		case "K":
			V.F[2] = &ref.Val{K: ref.KMap, M: [][2]*ref.Val{{val, ref.Int(ref.KI32, 1)}}}
		case "MV":
			V.F[3] = &ref.Val{K: ref.KMap, M: [][2]*ref.Val{{ref.Str("a"), val}, {ref.Str("b"), dfl}}}
		}
		S = o
	}
	how := fmt.Sprintf("value pattern %v (0 own default, 1 neighbour's default, 2 other) position %s", ch, pos)
	src := universe.New(S, V)
	want := ref.Encode(S, V)
	buf := make([]byte, len(want)+64)
	r := Enc(buf, src.Interface())
	if r.Panic != nil || r.Err != nil {
		c.Fail(fmt.Sprintf("EncodeObject failed: %v [%s]", r, how), mkCase("C10", "encode-failed", S, V, nil, nil))
		return
	}
	gc, err := ref.Canonical(buf[:r.N])
	wc, _ := ref.Canonical(want)
	if err != nil || !bytes.Equal(gc, wc) {
		c.Fail("encoding differs from the reference: each optional field is omitted exactly when it equals ITS OWN declared default ["+how+"]",
			mkCase("C10", "omission-mismatch", S, V, buf[:r.N], map[string]string{"reference": hx(want)}))
		return
	}
	if sz := Size(src.Interface()); sz.Panic != nil || sz.N != len(want) {
		c.Fail(fmt.Sprintf("EncodedSize %v, want %d [%s]", sz, len(want), how), mkCase("C10", "size-mismatch", S, V, nil, nil))
		return
	}
	dv := decodeAndCompare(S, want, decodeOpts{Guard: true})
	if dv.Class != "" {
		c.Fail(dv.Msg+" ["+how+"]", mkCase("C10", "decode-"+dv.Class, S, V, want, dv.detail()))
		return
	}
	harness.Cur.Outcome(harness.Hash64(want, []byte(pos)), pos)
}
