package checks

import (
	"fmt"
	"reflect"
	"runtime"
	"sort"
	"unsafe"

	"github.com/cloudwego/frugal/zverif/explore"
	"github.com/cloudwego/frugal/zverif/harness"
	"github.com/cloudwego/frugal/zverif/hooks"
	"github.com/cloudwego/frugal/zverif/ref"
	"github.com/cloudwego/frugal/zverif/universe"
)

type c06Msg struct {
	name string
	s    *ref.Struct
	v    *ref.Val
	// wire, when set, is sent instead of the encoding of v; fail: the decode must be REJECTED - the
	// application keeps the partly filled object all the same, and its memory stays its own
	wire []byte
	fail bool
}

var c06Cache []c06Msg

func rep(n int) string {
	b := make([]byte, n)
	for i := range b {
		b[i] = byte('a' + i%23)
	}
	return string(b)
}

// c06Alphabet: messages chosen to cross the 256-byte direct-allocation and the
// 2048-byte block thresholds of the decoder's sub-allocator and to mix
// alignments 1, 2, 4 and 8.
func c06Alphabet() []c06Msg {
	if c06Cache != nil {
		return c06Cache
	}
	sc := universe.Sc
	D, O := ref.ReqDefault, ref.ReqOptional
	var out []c06Msg
	// odd-length strings followed by optional pointer scalars of every alignment
	mix := mk(fd(1, D, sc(ref.KString)), fd(2, O, ptrTo(sc(ref.KI16))), fd(3, O, ptrTo(sc(ref.KI32))), fd(4, O, ptrTo(sc(ref.KI64))), fd(5, O, ptrTo(sc(ref.KDouble))),
		fd(6, O, ptrTo(sc(ref.KBool))), fd(7, O, ptrTo(sc(ref.KString))), fd(8, D, sc(ref.KBinary)))
	for _, n := range []int{1, 3, 5, 255, 257} {
		v := ref.ZeroStruct(mix)
		v.F[0] = ref.Str(rep(n))
		v.F[1], v.F[2], v.F[3], v.F[4], v.F[5] = ref.Int(ref.KI16, 0x0102), ref.Int(ref.KI32, 0x01020304), ref.Int(ref.KI64, 0x0102030405060708), ref.Double(1.5), ref.Bool(true)
		v.F[6] = ref.Str(rep(n + 2))
		v.F[7] = ref.Bin([]byte(rep(7)))
		out = append(out, c06Msg{name: fmt.Sprintf("mix(str%d)", n), s: mix, v: v})
	}
	// scalar lists around the direct-allocation threshold (256 bytes)
	for _, k := range []ref.Kind{ref.KI16, ref.KI32, ref.KI64} {
		lt := mk(fd(1, D, universe.ListOf(sc(k))), fd(2, D, sc(ref.KString)))
		for _, n := range []int{1, 31, 32, 33, 127, 128, 129} {
			if k != ref.KI16 && n > 33 && n != 128 {
				continue
			}
			lv := &ref.Val{K: ref.KList}
			for i := 0; i < n; i++ {
				lv.L = append(lv.L, universe.Nth(sc(k), i))
			}
			out = append(out, c06Msg{name: fmt.Sprintf("list<%s>[%d]", k, n), s: lt, v: &ref.Val{K: ref.KStruct, F: []*ref.Val{lv, ref.Str("x")}}})
		}
	}
	// strings around the block threshold
	st := mk(fd(1, D, sc(ref.KString)), fd(2, D, sc(ref.KBinary)), fd(3, D, universe.ListOf(sc(ref.KString))))
	for _, n := range []int{256, 2047, 2048, 2049} {
		out = append(out, c06Msg{name: fmt.Sprintf("strings(%d)", n), s: st, v: &ref.Val{K: ref.KStruct, F: []*ref.Val{ref.Str(rep(n)), ref.Bin([]byte(rep(n / 2))), ref.List(ref.KList, ref.Str(rep(3)), ref.Str(rep(300)), ref.Str(""))}}})
	}
	// pointers to structs in lists and maps, unknown-field holders, nocopy
	in := mk(fd(1, D, sc(ref.KI16)), fd(2, O, ptrTo(sc(ref.KI64))), fd(3, D, sc(ref.KString)))
	in.Unknown = true
	ps := mk(fd(1, D, universe.ListOf(universe.StPtr(in))), fd(2, D, universe.MapOf(universe.StPtr(in), universe.StPtr(in))), fd(3, D, universe.MapOf(sc(ref.KString), universe.ListOf(sc(ref.KI32)))), fd(4, D, universe.ListOf(universe.StVal(in))))
	ps.Unknown = true
	pv := c11Value(ps, 4)
	pv.Unk = unknownSamples[2]
	pv.F[0].L[0].Unk = unknownSamples[0]
	out = append(out, c06Msg{name: "pointers+maps+holders", s: ps, v: pv})
	lh := universe.LeafHolder()
	hs := mk(fd(1, D, universe.StPtr(lh)), fd(2, D, universe.ListOf(universe.StPtr(lh))), fd(3, D, universe.ListOf(universe.StVal(lh))), fd(4, D, universe.MapOf(sc(ref.KI32), universe.StPtr(lh))))
	hv := c11Value(hs, 2)
	hv.F[0].Unk = unknownSamples[1]
	hv.F[1].L[0].Unk = unknownSamples[2]
	hv.F[1].L[1].Unk = unknownSamples[0]
	hv.F[2].L[0].Unk = unknownSamples[0]
	hv.F[3].M[0][1].Unk = unknownSamples[1]
	out = append(out, c06Msg{name: "fixed-size-holder-structs", s: hs, v: hv})
	nc := mk(fd(1, D, sc(ref.KString)), fd(2, D, sc(ref.KBinary)), fd(3, D, sc(ref.KString)), fd(4, O, ptrTo(sc(ref.KI32))))
	nc.Fields[0].NoCopy, nc.Fields[1].NoCopy = true, true
	out = append(out, c06Msg{name: "nocopy+plain", s: nc, v: &ref.Val{K: ref.KStruct, F: []*ref.Val{ref.Str(rep(9)), ref.Bin([]byte(rep(300))), ref.Str(rep(11)), ref.Int(ref.KI32, 5)}}})
	// empty containers: every decoded object owns its own (empty) maps and slices
	em := mk(fd(1, D, universe.MapOf(sc(ref.KString), sc(ref.KI32))), fd(2, D, universe.MapOf(sc(ref.KI32), universe.StPtr(in))), fd(3, D, universe.ListOf(sc(ref.KI32))),
		fd(4, D, sc(ref.KBinary)), fd(5, D, universe.MapOf(sc(ref.KString), sc(ref.KI32))), fd(6, D, universe.SetOf(sc(ref.KString))))
	emv := &ref.Val{K: ref.KStruct, F: []*ref.Val{{K: ref.KMap}, {K: ref.KMap}, {K: ref.KList}, ref.Bin(nil), {K: ref.KMap}, {K: ref.KSet}}}
	eo := mk(fd(1, D, universe.ListOf(universe.StPtr(em))), fd(2, D, universe.StVal(em)), fd(3, D, universe.MapOf(sc(ref.KI32), universe.MapOf(sc(ref.KString), sc(ref.KI32)))))
	eov := &ref.Val{K: ref.KStruct, F: []*ref.Val{ref.List(ref.KList, emv, emv), emv,
		{K: ref.KMap, M: [][2]*ref.Val{{ref.Int(ref.KI32, 1), {K: ref.KMap}}, {ref.Int(ref.KI32, 2), {K: ref.KMap}}}}}}
	out = append(out, c06Msg{name: "empty-containers", s: eo, v: eov})
	// rejected messages whose partly decoded object the caller keeps: complete but lacking a required field
	// (the error comes after everything was stored), and truncated in its last field
	{
		R := ref.ReqRequired
		rq := mk(fd(1, D, sc(ref.KString)), fd(2, D, universe.ListOf(sc(ref.KI64))), fd(3, D, sc(ref.KBinary)), fd(4, O, ptrTo(sc(ref.KI32))), fd(5, D, universe.StPtr(in)), fd(9, R, sc(ref.KI32)))
		wr := mk(fd(1, D, sc(ref.KString)), fd(2, D, universe.ListOf(sc(ref.KI64))), fd(3, D, sc(ref.KBinary)), fd(4, O, ptrTo(sc(ref.KI32))), fd(5, D, universe.StPtr(in)))
		wv := &ref.Val{K: ref.KStruct, F: []*ref.Val{ref.Str(rep(40)), ref.List(ref.KList, ref.Int(ref.KI64, 1), ref.Int(ref.KI64, 2), ref.Int(ref.KI64, 3)), ref.Bin([]byte(rep(33))), ref.Int(ref.KI32, 9), c11Value(in, 2)}}
		w := ref.Encode(wr, wv)
		out = append(out, c06Msg{name: "rejected:required-field-missing-at-the-end", s: rq, v: wv, wire: w, fail: true})
		full := append(append([]byte{}, w[:len(w)-1]...), ref.WI32, 0, 9, 0, 0, 0, 1, 0)
		out = append(out, c06Msg{name: "rejected:truncated-in-the-last-field", s: rq, v: wv, wire: full[:len(full)-3], fail: true})
	}
	// one decode that rolls the sub-allocator's block over many times with mixed alignments
	many := mk(fd(1, D, universe.ListOf(sc(ref.KString))), fd(2, D, universe.ListOf(universe.ListOf(sc(ref.KI16)))), fd(3, D, universe.MapOf(sc(ref.KString), universe.ListOf(sc(ref.KI64)))))
	mv := &ref.Val{K: ref.KStruct, F: []*ref.Val{{K: ref.KList}, {K: ref.KList}, {K: ref.KMap}}}
	for i := 0; i < 700; i++ {
		mv.F[0].L = append(mv.F[0].L, ref.Str(rep(1+i%9)))
		l := &ref.Val{K: ref.KList}
		for j := 0; j < 1+i%5; j++ {
			l.L = append(l.L, ref.Int(ref.KI16, int64(i+j)))
		}
		mv.F[1].L = append(mv.F[1].L, l)
		if i%7 == 0 {
			mv.F[2].M = append(mv.F[2].M, [2]*ref.Val{ref.Str(rep(2+i%5) + fmt.Sprint(i)), ref.List(ref.KList, ref.Int(ref.KI64, int64(i)))})
		}
	}
	out = append(out, c06Msg{name: "many-small-allocations", s: many, v: mv})
	// nested structs whose default initialiser provides a non-nil list: each decoded struct owns its copy
	dps, dpo := universe.DPSpecs()
	dv := ref.ZeroStruct(dpo)
	dv.F[0] = ref.InitStruct(dps)
	dv.F[0].F[5] = ref.InitStruct(dps)
	dv.F[1] = &ref.Val{K: ref.KMap, M: [][2]*ref.Val{{ref.Int(ref.KI32, 1), ref.InitStruct(dps)}, {ref.Int(ref.KI32, 2), ref.InitStruct(dps)}}}
	out = append(out, c06Msg{name: "nested-default-containers", s: dpo, v: dv})
	c06Cache = out
	return out
}

var c06Actions = []string{"none", "overwrite-input", "reuse-buffer", "gc-twice", "drop-all-gc-and-churn", "reuse-destination-keeping-a-shallow-copy"}

// churn: application buffers allocated after earlier decoded objects were dropped and collected;
// a decoder writing into memory it no longer owns shows up as a change in one of them.
var c06Churn [][]byte

func c06ChurnIntact() bool {
	for _, b := range c06Churn {
		for _, x := range b {
			if x != 0x3c {
				return false
			}
		}
	}
	return true
}

func init() {
	harness.Register(&harness.Check{
		ID:          "C06",
		Level:       "model_checking",
		Explanation: "Two layers. Component (E3): explicit-state BFS over the real bump allocator with the invariant 'aligned, inside the block, disjoint from everything handed out of it' on every transition. Decoder (E1): ALL histories of length <=3 (thorough 4) over an alphabet of ~30 messages chosen to cross the 256-byte direct-allocation and 2048-byte block thresholds and to mix alignments, interleaved with every choice of {nothing, overwrite the input with 0xFF, reuse the input buffer for the next message, two forced GCs under GODEBUG=clobberfree=1}; after every step a reflect+unsafe walk collects every pointer target, slice extent up to capacity and non-empty string of every live decoded object: all must be aligned for their element type, pairwise disjoint within and across objects, disjoint from every input buffer unless the field is nocopy, and every earlier object must still equal its snapshot.",
		Assumptions: []string{"go1.23.5 toolchain", "GODEBUG=clobberfree=1 makes a use-after-free of decoder-owned memory deterministic", "the free-running -race/-d=checkptr pass of the same histories is not part of the decision"},
		Phases: func(tier universe.Tier) []*harness.Phase {
			n := 3
			if tier == universe.Thorough {
				n = 4
			}
			ps := []*harness.Phase{{
				Name: "decoder-histories", Gate: true, Env: []string{"GODEBUG=clobberfree=1"},
				Rule: fmt.Sprintf("all sequences of 1..%d messages of the alphabet (the longest length over every fifth message) x an action from {none, overwrite input, reuse buffer, gc twice, drop everything + gc + application churn, decode into the previous destination keeping a shallow copy} between steps, two forced GCs at the end; distinct by (history)", n),
				Body: func(c *explore.C) { c06Body(c, n) },
			}}
			return append(ps, e3Phases("C06")...)
		},
	})
}

var c06EncCache = map[string][2]string{}

// c06Encoded returns the encoding of a message of the alphabet and the canonical form of the value the
// reference decoder reads from it (both constant per message).
func c06Encoded(m c06Msg) ([]byte, string) {
	e, ok := c06EncCache[m.name]
	if !ok {
		if m.fail {
			if ref.Decode(m.s, m.wire, nil, ref.DecOpts{}).OK {
				panic("harness error: the reference accepts the message meant to be rejected: " + m.name)
			}
			e = [2]string{string(m.wire), ""}
		} else {
			enc := ref.Encode(m.s, m.v)
			e = [2]string{string(enc), ref.Decode(m.s, enc, nil, ref.DecOpts{}).V.Canon()}
		}
		c06EncCache[m.name] = e
	}
	return []byte(e[0]), e[1]
}

type c06Live struct {
	msg    c06Msg
	dst    reflect.Value
	snap   string
	input  []byte
	nocopy bool
}

func c06Body(c *explore.C, maxLen int) {
	al := c06Alphabet()
	n := 1 + c.Choose(maxLen, explore.Data, "length")
	if n == maxLen && n > 2 {
		// the longest histories run over a reduced alphabet (every fifth message)
		var red []c06Msg
		for i := 0; i < len(al); i += 5 {
			red = append(red, al[i])
		}
		al = red
	}
	seq := make([]int, n)
	acts := make([]int, n)
	for i := range seq {
		seq[i] = c.Choose(len(al), explore.Data, "message")
		if i < n-1 {
			acts[i] = c.Choose(len(c06Actions), explore.Data, "action")
		} else {
			acts[i] = 3 // every history ends with two forced collections
		}
	}
	c.Gate()
	harness.Cur.Crumb(c.Choices())
	hooks.Reset()
	c06Churn = nil
	var live []*c06Live
	shared := make([]byte, 0, 8192) // the reusable input buffer
	var hist []string
	for i := range seq {
		m := al[seq[i]]
		enc, expCanon := c06Encoded(m)
		var in []byte
		if i > 0 && acts[i-1] == 2 {
			in = append(shared[:0], enc...) // the previous message's buffer is reused
		} else {
			in = append(make([]byte, 0, len(enc)), enc...)
			shared = in[:0:cap(in)]
		}
		dst := universe.New(m.s, nil)
		if i > 0 && acts[i-1] == 5 && len(live) > 0 && live[len(live)-1].msg.s == m.s {
			// decode into the previous destination object; the earlier value lives on in a shallow copy
			prev := live[len(live)-1]
			cp := reflect.New(prev.dst.Type().Elem())
			cp.Elem().Set(prev.dst.Elem())
			dst, prev.dst = prev.dst, cp
		}
		r := Dec(in, dst.Interface())
		hist = append(hist, m.name+"+"+c06Actions[acts[i]])
		cs := func(class string, d interface{}) *harness.Case {
			return &harness.Case{Property: "C06", Class: class, Type: m.s.String(), Detail: map[string]interface{}{"history": hist, "detail": d}}
		}
		if m.fail && (r.Panic != nil || r.Err == nil) {
			c.Fail(fmt.Sprintf("decode %d (%s) must be rejected with an error: %v", i+1, m.name, r), cs("malformed-accepted", r.String()))
			return
		}
		if !m.fail && (r.Panic != nil || r.Err != nil || r.N != len(enc)) {
			c.Fail(fmt.Sprintf("decode %d (%s) of a valid message failed: %v", i+1, m.name, r), cs("decode-failed", r.String()))
			return
		}
		hasNocopy := false
		for _, f := range m.s.Fields {
			hasNocopy = hasNocopy || f.NoCopy
		}
		lv := &c06Live{msg: m, dst: dst, input: in, nocopy: hasNocopy}
		lv.snap = universe.ReadStruct(m.s, dst.Elem()).Canon()
		reused := i > 0 && acts[i-1] == 5 && len(live) > 0 && live[len(live)-1].msg.s == m.s
		if !m.fail && lv.snap != expCanon && !reused {
			c.Fail(fmt.Sprintf("decode %d (%s) yields a wrong value", i+1, m.name), cs("value-mismatch", nil))
			return
		}
		live = append(live, lv)
		// the action after this decode
		switch acts[i] {
		case 1:
			for k := range in {
				in[k] = 0xFF
			}
		case 3:
			runtime.GC()
			runtime.GC()
		case 4:
			// the application drops every decoded object, the collector runs, the application allocates buffers of its own
			live = nil
			runtime.GC()
			runtime.GC()
			c06Churn = nil
			for k := 0; k < 96; k++ {
				b := make([]byte, 2048>>(k%3))
				for x := range b {
					b[x] = 0x3c
				}
				c06Churn = append(c06Churn, b)
			}
		}
		if !c06ChurnIntact() {
			c.Fail(fmt.Sprintf("after step %d (%s): a buffer the application allocated after dropping all decoded objects was overwritten by a later decode", i+1, hist[i]), cs("wrote-into-foreign-memory", nil))
			return
		}
		if msg, class := c06Check(live); msg != "" {
			c.Fail(fmt.Sprintf("after step %d (%s): %s", i+1, hist[i], msg), cs(class, msg))
			return
		}
	}
	harness.Cur.Outcome(harness.Hash64([]byte(fmt.Sprint(seq, acts))), fmt.Sprintf("len=%d", n))
	harness.Cur.Sample(func() interface{} { return map[string]interface{}{"history": hist} })
}

// sameBuffer: two input slices occupying the same memory (a reused buffer).
func sameBuffer(a, b []byte) bool {
	return cap(a) > 0 && cap(b) > 0 && unsafe.SliceData(a) == unsafe.SliceData(b)
}

// c06Check verifies ownership of the memory of all live decoded objects.
func c06Check(live []*c06Live) (string, string) {
	type owned struct {
		extent
		obj int
	}
	var all []owned
	for oi, lv := range live {
		// nocopy objects legitimately alias their input: their value changes with it (C14) - not compared here
		skipValue := lv.nocopy
		if !skipValue {
			if got := universe.ReadStruct(lv.msg.s, lv.dst.Elem()).Canon(); got != lv.snap {
				return fmt.Sprintf("decoded object %d (%s) changed after it was decoded", oi+1, lv.msg.name), "object-changed"
			}
		}
		for _, e := range Extents(lv.dst) {
			if e.addr%e.align != 0 {
				return fmt.Sprintf("object %d (%s): %s %s at address ...%x is not aligned to %d", oi+1, lv.msg.name, e.kind, e.path, e.addr&0xfff, e.align), "misaligned"
			}
			// disjoint from every input buffer (up to capacity) unless nocopy
			for bi, other := range live {
				if cap(other.input) == 0 {
					continue
				}
				lo := uintptr(unsafe.Pointer(unsafe.SliceData(other.input)))
				hi := lo + uintptr(cap(other.input))
				if overlaps(e, lo, hi) && !(lv.nocopy && sameBuffer(lv.input, other.input)) {
					return fmt.Sprintf("object %d (%s): %s %s lies inside the input buffer of message %d", oi+1, lv.msg.name, e.kind, e.path, bi+1), "aliases-input"
				}
			}
			all = append(all, owned{e, oi})
		}
	}
	// pairwise disjoint within and across objects (the top-level structs are caller memory, not included).
	// Sweep over the extents sorted by address; only when the sweep meets an overlap (a defect, or the
	// expected aliasing of two nocopy views) is the full pairwise comparison run.
	sorted := append([]owned(nil), all...)
	sort.Slice(sorted, func(i, j int) bool { return sorted[i].addr < sorted[j].addr })
	clean := true
	var maxEnd uintptr
	for i, e := range sorted {
		if i > 0 && e.addr < maxEnd {
			clean = false
			break
		}
		if e.end() > maxEnd {
			maxEnd = e.end()
		}
	}
	if clean {
		return "", ""
	}
	for i := range all {
		for j := i + 1; j < len(all); j++ {
			a, b := all[i], all[j]
			if a.addr < b.end() && b.addr < a.end() {
				if live[a.obj].nocopy && live[b.obj].nocopy && a.obj != b.obj {
					continue // two nocopy views into a reused buffer: expected aliasing of caller memory
				}
				return fmt.Sprintf("memory overlap: object %d %s %s [size %d] and object %d %s %s [size %d]", a.obj+1, a.kind, a.path, a.size, b.obj+1, b.kind, b.path, b.size), "overlap"
			}
		}
	}
	return "", ""
}
