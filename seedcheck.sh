#!/bin/sh
# usage: seedcheck.sh <seed dir with patch.diff, demo_test.go|demo files, meta.json> <check id>...
# Confirms a sub-agent's seeded change in a scratch worktree: patch applies, the
# repository's tests still pass, the demonstration fails with the change and
# passes without it; then runs the named checks against the changed tree.
set -u
D=$1; shift
export GOFLAGS=-mod=mod GOPROXY=off GOSUMDB=off GOTOOLCHAIN=local
W=$(mktemp -d /var/tmp/verif-seed-XXXXXX); O=$(mktemp -d /var/tmp/verif-out-XXXXXX)
trap 'git -C /repo worktree remove --force "$W" >/dev/null 2>&1; rm -rf "$W" "$O"' EXIT INT TERM
rmdir "$W"; git -C /repo worktree add -q --detach "$W" HEAD || exit 3
demo() { # runs the demonstration in $W; returns its exit status
  ( cd "$W" || exit 9
    for f in "$D"/*_test.go; do [ -f "$f" ] && cp "$f" "./zz_seed_$(basename "$f")"; done
    if [ -d "$D/demo" ]; then mkdir -p zz_seed_demo && cp -r "$D"/demo/* zz_seed_demo/; fi
    if ls ./zz_seed_*_test.go >/dev/null 2>&1; then go test -vet=off -count=1 . >"$O/demo.log" 2>&1; rc=$?;
    elif [ -d zz_seed_demo ]; then go run ./zz_seed_demo >"$O/demo.log" 2>&1; rc=$?;
    else echo "no demo found" >"$O/demo.log"; rc=9; fi
    rm -rf ./zz_seed_*; exit $rc )
}
demo; echo "demo without the change: exit=$? (expect 0)"; tail -3 "$O/demo.log" | cut -c1-200
git -C "$W" apply "$D/patch.diff" || { echo "patch does not apply"; exit 3; }
demo; echo "demo with the change:    exit=$? (expect non-zero)"; grep -m3 -i "fail\|panic\|---" "$O/demo.log" | cut -c1-200
if VERIF_REPO="$W" "${VERIF_DIR:-/verif}"/baseline.sh >"$O/baseline.log" 2>&1; then echo "repository tests with the change: PASS"; else echo "repository tests with the change: FAIL"; tail -5 "$O/baseline.log"; fi
for c in "$@"; do
  echo "== $c"
  VERIF_REPO="$W" VERIF_OUT="$O" "${VERIF_DIR:-/verif}"/check.sh "$c" --tier "${TIER:-quick}" 2>&1 | grep -v "^C[0-9]*/" | head -7 | cut -c1-400
done
