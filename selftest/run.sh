#!/bin/sh
# usage: selftest/run.sh [mutant-name-substring] -- runs every own mutant whose expected
# checks exist through mutant.sh and prints one table line per (mutant, check).
cd /verif
python3 - "$@" <<'PY'
import json,subprocess,sys,os,re
idx=json.load(open('/verif/selftest/mutants/index.json'))
manifest=json.load(open('/verif/MANIFEST.json'))
have={c['property_id'] for c in manifest['checks']}
flt=sys.argv[1] if len(sys.argv)>1 else ''
rows=[]
for m in idx:
    if flt and flt not in m['name']: continue
    checks=[c for c in m['expected'] if c in have]
    if not checks:
        print(f"{m['name']:45s} (no registered check among {m['expected']})"); continue
    out=subprocess.run(['/verif/mutant.sh',f"/verif/selftest/mutants/{m['name']}.diff",*checks],capture_output=True,text=True).stdout
    base='PASS' if 'baseline tests: PASS' in out else 'FAIL'
    for c in checks:
        seg=out.split(f'== {c}')[1].split('== ')[0] if f'== {c}' in out else ''
        verdict='VIOLATION' if f'VIOLATION property=' in seg else ('OK' if 'OK property' in seg else 'ERROR')
        props=sorted(set(re.findall(r'VIOLATION property=(C\d+)',seg)))
        first=next((l.strip() for l in seg.splitlines() if l.startswith('  ') and 'phase=' not in l),'')[:150]
        print(f"{m['name']:45s} baseline={base} {c}: {verdict} {','.join(props)} {first}")
        sys.stdout.flush()
PY
