// Package harness runs checks: it shards an exploration over worker
// subprocesses, merges their statistics, confirms failures by replay in fresh
// processes, matches them against known findings and writes the evidence file.
package harness

import (
	"crypto/sha256"
	"encoding/hex"
	"encoding/json"
	"flag"
	"fmt"
	"os"
	"os/exec"
	"path/filepath"
	"regexp"
	"runtime"
	"runtime/debug"
	"runtime/pprof"
	"sort"
	"strconv"
	"strings"
	"sync"
	"syscall"
	"time"

	"github.com/cloudwego/frugal/zverif/explore"
	"github.com/cloudwego/frugal/zverif/universe"
)

// Phase is one exhaustive enumeration belonging to a check.
type Phase struct {
	Name       string
	Bound      int                // deviation bound for Dev choices
	Body       func(c *explore.C) // E1 harness body (nil when Custom is set)
	Custom     func(p *PhaseCtx)  // E2/E3 engines report through PhaseCtx
	NoShard    bool               // run in a single worker
	Env        []string           // extra environment of the phase's worker processes
	FineCrumbs bool               // write the breadcrumb after every choice (scheduled runs: a death is pinned to the schedule)
	Gate       bool               // the body calls c.Gate(): shard by hash of the leading choices
	Weight     float64            // share of the check\'s time budget relative to the other phases (0 = 1)
	Race       bool               // run this phase in the race-detector build of the checker ($VERIF_RACE_BIN)
	Rule       string             // how cases are enumerated, what makes an outcome distinct
	// OncePerProcess: the phase runs on the unmodified build, whose process-wide state cannot be reset, so
	// a second run of a case in the same process is not the same experiment (first-use effects): replays
	// run the case once per fresh process instead of twice in one
	OncePerProcess bool
}

// PhaseCtx lets custom engines report statistics and failures.
type PhaseCtx struct {
	Tier     universe.Tier
	Shard, N int
	Deadline time.Time
	R        *PhaseResult
}

type FailureRec struct {
	Property string      `json:"property"`
	Phase    string      `json:"phase"`
	Msg      string      `json:"msg"`
	Class    string      `json:"class"`
	Case     interface{} `json:"case"`
	Choices  []int       `json:"choices"`
	Labels   []string    `json:"labels,omitempty"`
	Cost     int         `json:"cost"`
}

type PhaseResult struct {
	Phase       string           `json:"phase"`
	Executions  int64            `json:"executions"`
	States      int64            `json:"states"`
	Transitions int64            `json:"transitions"`
	MaxDepth    int              `json:"max_depth"`
	MaxCost     int              `json:"max_cost"`
	Distinct    int64            `json:"distinct_outcomes"`
	Classes     map[string]int64 `json:"classes"`
	Failures    []*FailureRec    `json:"failures"`
	CapHit      string           `json:"cap_hit,omitempty"`
	Samples     []interface{}    `json:"samples,omitempty"`
	Extra       map[string]int64 `json:"extra,omitempty"`
	HarnessErr  string           `json:"harness_error,omitempty"`
	WorkersDied []string         `json:"workers_died,omitempty"`
	WallS       float64          `json:"wall_s,omitempty"`
}

func (r *PhaseResult) AddExtra(k string, n int64) {
	if r.Extra == nil {
		r.Extra = map[string]int64{}
	}
	r.Extra[k] += n
}

func (r *PhaseResult) merge(o *PhaseResult) {
	r.Executions += o.Executions
	r.States += o.States
	r.Transitions += o.Transitions
	if o.MaxDepth > r.MaxDepth {
		r.MaxDepth = o.MaxDepth
	}
	if o.MaxCost > r.MaxCost {
		r.MaxCost = o.MaxCost
	}
	r.Distinct += o.Distinct
	if r.Classes == nil {
		r.Classes = map[string]int64{}
	}
	for k, v := range o.Classes {
		r.Classes[k] += v
	}
	r.Failures = append(r.Failures, o.Failures...)
	if o.CapHit != "" && r.CapHit == "" {
		r.CapHit = o.CapHit
	}
	if len(r.Samples) < 6 {
		r.Samples = append(r.Samples, o.Samples...)
		if len(r.Samples) > 6 {
			r.Samples = r.Samples[:6]
		}
	}
	for k, v := range o.Extra {
		r.AddExtra(k, v)
	}
	if o.HarnessErr != "" && r.HarnessErr == "" {
		r.HarnessErr = o.HarnessErr
	}
	r.WorkersDied = append(r.WorkersDied, o.WorkersDied...)
}

// Check is one property's check.
type Check struct {
	ID          string
	Level       string
	Phases      func(t universe.Tier) []*Phase
	Assumptions []string
	Explanation string
}

var registry = map[string]*Check{}

func Register(c *Check) { registry[c.ID] = c }

// Lookup returns a registered check (nil if unknown); used to extend a check with more phases.
func Lookup(id string) *Check { return registry[id] }

// ---- per-execution reporting used by harness bodies -------------------------

// Obs carries the per-execution sinks; bodies get it through Cur.
type Obs struct {
	distinct map[uint64]struct{}
	classes  map[string]int64
	samples  []interface{}
	extra    map[string]int64
	crumb    *os.File
	crumbFD  int
	skip     []string // choice sequences not to execute again
}

// Cur is the observation sink of the running worker (one goroutine drives it).
var Cur = &Obs{distinct: map[uint64]struct{}{}, classes: map[string]int64{}, extra: map[string]int64{}}

const distinctCap = 4 << 20

// Outcome records a 64-bit digest of an execution's observable result and a coarse class label.
func (o *Obs) Outcome(h uint64, class string) {
	if len(o.distinct) < distinctCap {
		o.distinct[h] = struct{}{}
	}
	o.classes[class]++
}

func (o *Obs) Count(k string, n int64) { o.extra[k] += n }

// Evals counts individual evaluations when one explorer execution runs a batch
// of them (e.g. all 255 substitutions of one byte).
func (o *Obs) Evals(n int64) { o.extra["evaluations"] += n }

// Sample keeps a few written-out cases for the evidence file.
func (o *Obs) Sample(f func() interface{}) {
	if len(o.samples) < 3 {
		o.samples = append(o.samples, f())
	}
}

// Invisible is kept for harness bookkeeping that must not leave synchronisation events for the race
// detector (unused by the breadcrumbs: see crumbNoSkip).
var Invisible = func(f func()) { f() }

// crumbNoSkip writes the breadcrumb from inside a scheduled thread.  It must not create any
// happens-before edge between threads in the race detector's view: no os.File (its descriptor lock is
// real synchronisation), no encoding/json (pooled encoder state) - a raw pwrite of a locally formatted
// buffer.  (syscall.Pwrite only *releases* on the runtime's ioSync token; nobody acquires it.)
//
//go:norace
func (o *Obs) crumbNoSkip(choices []int) {
	if o.crumbFD <= 0 {
		return
	}
	var buf [4096]byte
	n := 0
	buf[n] = '['
	n++
	for i, c := range choices {
		if n > len(buf)-32 {
			break
		}
		if i > 0 {
			buf[n] = ','
			n++
		}
		var tmp [20]byte
		k := len(tmp)
		if c == 0 {
			k--
			tmp[k] = '0'
		}
		for x := c; x > 0; x /= 10 {
			k--
			tmp[k] = byte('0' + x%10)
		}
		n += copy(buf[n:], tmp[k:])
	}
	n += copy(buf[n:], "]\n        ")
	syscall.Pwrite(o.crumbFD, buf[:n], 0)
}

// Crumb records the case about to be executed so that a worker death can be pinned.
func (o *Obs) Crumb(choices []int) {
	if len(o.skip) > 0 {
		k := fmt.Sprint(choices)
		for _, s := range o.skip {
			if s == k {
				explore.SkipExecution() // this case killed an earlier worker of this shard: already reported
			}
		}
	}
	if o.crumb == nil {
		return
	}
	b, _ := json.Marshal(choices)
	b = append(b, '\n')
	o.crumb.WriteAt(append(b, make([]byte, 8)...), 0)
}

func Hash64(parts ...[]byte) uint64 {
	h := sha256.New()
	for _, p := range parts {
		var l [4]byte
		l[0], l[1], l[2], l[3] = byte(len(p)>>24), byte(len(p)>>16), byte(len(p)>>8), byte(len(p))
		h.Write(l[:])
		h.Write(p)
	}
	s := h.Sum(nil)
	var x uint64
	for i := 0; i < 8; i++ {
		x = x<<8 | uint64(s[i])
	}
	return x
}

// Fail is the case descriptor convention used by all checks.
type Case struct {
	Property string      `json:"property"`
	Class    string      `json:"class"` // failure class, used by known-finding matchers
	Type     string      `json:"type,omitempty"`
	GoType   string      `json:"go_type,omitempty"`
	Value    string      `json:"value,omitempty"`
	Input    string      `json:"input_hex,omitempty"`
	Detail   interface{} `json:"detail,omitempty"`
}

// ---- command line ------------------------------------------------------------

// CustomReplay replays a failure of a Custom (non-explorer) phase: it returns the
// violation ("" if the property held) and whether the phase is replayable.
var CustomReplay func(phase string, choices []int) (string, bool)

// RaceBuild is set by package checks: whether this binary carries the race detector.
var RaceBuild bool

var (
	VerifDir = "/verif"
	OutDir   = "/verif"
)

func Main() {
	if len(os.Args) < 2 {
		fmt.Fprintln(os.Stderr, "usage: verifcheck <property> [--tier quick|thorough] [--replay file]")
		os.Exit(2)
	}
	id := os.Args[1]
	fs := flag.NewFlagSet("verifcheck", flag.ExitOnError)
	tierS := fs.String("tier", "", "quick|thorough")
	replay := fs.String("replay", "", "replay file")
	worker := fs.String("worker", "", "internal: phase:shard/n")
	out := fs.String("out", "", "internal: result file")
	budget := fs.Duration("budget", 0, "internal deadline for the whole check (0 = tier default)")
	nw := fs.Int("workers", 0, "worker processes (default: cores)")
	fs.Parse(os.Args[2:])
	if *tierS == "" {
		*tierS = os.Getenv("VERIF_TIER")
	}
	tier := universe.Quick
	if *tierS == "thorough" {
		tier = universe.Thorough
	} else {
		*tierS = "quick"
	}
	if d := os.Getenv("VERIF_DIR"); d != "" {
		VerifDir = d
	}
	OutDir = VerifDir
	if d := os.Getenv("VERIF_OUT"); d != "" {
		OutDir = d // evidence and replay files of runs against scratch trees go elsewhere
	}
	ck := registry[id]
	if ck == nil {
		fmt.Fprintf(os.Stderr, "unknown property %q\n", id)
		os.Exit(2)
	}
	switch {
	case *worker != "":
		runWorker(ck, tier, *worker, *out, *budget)
	case *replay != "":
		os.Exit(runReplay(ck, tier, *replay, true))
	default:
		os.Exit(runCheck(ck, tier, *tierS, *nw, *budget))
	}
}

func weightOf(p *Phase) float64 {
	if p.Weight > 0 {
		return p.Weight
	}
	return 1
}

func findPhase(ck *Check, tier universe.Tier, name string) *Phase {
	for _, p := range ck.Phases(tier) {
		if p.Name == name {
			return p
		}
	}
	return nil
}

var ballast []byte

func runWorker(ck *Check, tier universe.Tier, spec, out string, budget time.Duration) {
	// spec = phase:shard/n
	i := strings.LastIndex(spec, ":")
	name, sh := spec[:i], spec[i+1:]
	var shard, n int
	fmt.Sscanf(sh, "%d/%d", &shard, &n)
	ph := findPhase(ck, tier, name)
	if ph == nil {
		fmt.Fprintf(os.Stderr, "unknown phase %q\n", name)
		os.Exit(2)
	}
	runtime.GOMAXPROCS(1)
	debug.SetPanicOnFault(true)
	debug.SetGCPercent(25) // with the 256 MB ballast below: a collection every ~64 MB of allocation
	// a never-touched pointer-free ballast keeps the heap goal far above the working set, so that the
	// background scavenger does not hand freed pages back to the OS after every forced collection
	// (profiles showed madvise as 40% of a worker's time); it costs address space, not memory
	ballast = make([]byte, 256<<20)
	if lim := os.Getenv("VERIF_WORKER_AS"); lim != "0" && !RaceBuild {
		var as uint64 = 12 << 30
		if lim != "" {
			if x, err := strconv.ParseUint(lim, 10, 64); err == nil {
				as = x
			}
		}
		syscall.Setrlimit(syscall.RLIMIT_AS, &syscall.Rlimit{Cur: as, Max: as})
	}
	if f, err := os.Create(out + ".crumb"); err == nil {
		Cur.crumb = f
		Cur.crumbFD = int(f.Fd())
	}
	if b, err := os.ReadFile(out + ".skip"); err == nil {
		for _, l := range strings.Split(string(b), "\n") {
			var ch []int
			if json.Unmarshal([]byte(l), &ch) == nil && len(ch) > 0 {
				Cur.skip = append(Cur.skip, fmt.Sprint(ch))
			}
		}
	}
	if pf := os.Getenv("VERIF_CPUPROFILE"); pf != "" {
		if f, err := os.Create(fmt.Sprintf("%s.%s.%d", pf, name, os.Getpid())); err == nil {
			pprof.StartCPUProfile(f)
			defer pprof.StopCPUProfile()
		}
	}
	res := &PhaseResult{Phase: name}
	var deadline time.Time
	if budget > 0 {
		deadline = time.Now().Add(budget)
	}
	func() {
		defer func() {
			if r := recover(); r != nil {
				res.HarnessErr = fmt.Sprintf("harness panic: %v\n%s", r, debug.Stack())
			}
		}()
		if ph.Custom != nil {
			ph.Custom(&PhaseCtx{Tier: tier, Shard: shard, N: n, Deadline: deadline, R: res})
		} else {
			e := &explore.Explorer{Bound: ph.Bound, Shard: shard, NShards: n, Deadline: deadline, GateSharding: ph.Gate}
			if ph.FineCrumbs {
				e.OnChoice = Cur.crumbNoSkip
			}
			if len(Cur.skip) > 0 {
				e.SkipSeqs = map[string]bool{}
				for _, k := range Cur.skip {
					e.SkipSeqs[k] = true
				}
			}
			e.Run(ph.Body)
			res.Executions = e.Stats.Executions
			res.States = e.Stats.Nodes
			res.Transitions = e.Stats.Choices
			res.MaxDepth = e.Stats.MaxDepth
			res.MaxCost = e.Stats.MaxCost
			res.CapHit = e.Stats.CapHit
			if e.Stats.Diverged > 0 {
				note := fmt.Sprintf("the code under test did not repeat its scheduling/environment points on replayed prefixes (it is not a deterministic function of the choices, e.g. it iterates a Go map): %d subtrees abandoned in this shard", e.Stats.Diverged)
				if res.CapHit != "" {
					note = res.CapHit + "; " + note
				}
				res.CapHit = note
			}
			for _, f := range e.Stats.Failures {
				res.Failures = append(res.Failures, toRec(ck.ID, name, f))
			}
		}
	}()
	res.Distinct += int64(len(Cur.distinct))
	if res.Classes == nil {
		res.Classes = map[string]int64{}
	}
	for k, v := range Cur.classes {
		res.Classes[k] += v
	}
	res.Samples = append(res.Samples, Cur.samples...)
	for k, v := range Cur.extra {
		res.AddExtra(k, v)
	}
	b, _ := json.Marshal(res)
	if err := os.WriteFile(out, b, 0o644); err != nil {
		fmt.Fprintln(os.Stderr, err)
		os.Exit(3)
	}
	os.Remove(out + ".crumb")
	pprof.StopCPUProfile()
	os.Exit(0)
}

func toRec(id, phase string, f *explore.Failure) *FailureRec {
	r := &FailureRec{Property: id, Phase: phase, Msg: f.Msg, Case: f.Case, Choices: f.Choices, Labels: f.Labels, Cost: f.Cost}
	if c, ok := f.Case.(*Case); ok {
		r.Class = c.Class
		if c.Property != "" {
			r.Property = c.Property
		}
	}
	return r
}

// ---- coordinator ---------------------------------------------------------------

type Finding struct {
	Status   string `json:"status"` // open | fixed
	Property string `json:"property"`
	Class    string `json:"class,omitempty"`      // failure class to match (open findings)
	TypeRe   string `json:"type_regex,omitempty"` // regexp over the case's type string
	MsgRe    string `json:"msg_regex,omitempty"`
	Commit   string `json:"commit,omitempty"`
	What     string `json:"what"`
}

func loadFindings() []*Finding {
	var r []*Finding
	b, err := os.ReadFile(filepath.Join(VerifDir, "known_findings.txt"))
	if err != nil {
		return nil
	}
	for _, l := range strings.Split(string(b), "\n") {
		l = strings.TrimSpace(l)
		if !strings.HasPrefix(l, "open:") {
			continue // comments and "fixed:" records suppress nothing
		}
		// open: property=<id> match=<json> what=<text>
		var f Finding
		f.Status = "open"
		rest := strings.TrimSpace(strings.TrimPrefix(l, "open:"))
		mi, wi := strings.Index(rest, "match="), strings.Index(rest, " what=")
		if !strings.HasPrefix(rest, "property=") || mi < 0 || wi < mi {
			fmt.Fprintf(os.Stderr, "HARNESS-ERROR: bad known_findings line: %s\n", l)
			os.Exit(3)
		}
		f.Property = strings.TrimSpace(rest[len("property="):mi])
		if err := json.Unmarshal([]byte(rest[mi+len("match="):wi]), &f); err != nil {
			fmt.Fprintf(os.Stderr, "HARNESS-ERROR: bad known_findings matcher: %v\n", err)
			os.Exit(3)
		}
		f.What = strings.TrimSpace(rest[wi+len(" what="):])
		r = append(r, &f)
	}
	return r
}

func (f *Finding) matches(r *FailureRec) bool {
	if f.Status != "open" || f.Property != r.Property {
		return false
	}
	if f.Class != "" && f.Class != r.Class {
		return false
	}
	if f.TypeRe != "" {
		ts := ""
		if m, ok := r.Case.(map[string]interface{}); ok {
			ts, _ = m["type"].(string)
		} else if c, ok := r.Case.(*Case); ok {
			ts = c.Type
		}
		if ok, _ := regexp.MatchString(f.TypeRe, ts); !ok {
			return false
		}
	}
	if f.MsgRe != "" {
		if ok, _ := regexp.MatchString(f.MsgRe, r.Msg); !ok {
			return false
		}
	}
	return true
}

func runCheck(ck *Check, tier universe.Tier, tierS string, nworkers int, budget time.Duration) int {
	start := time.Now()
	if nworkers <= 0 {
		nworkers = runtime.NumCPU()
	}
	if budget == 0 {
		budget = 100 * time.Second
		if tier == universe.Thorough {
			budget = 25 * time.Minute
		}
		if s := os.Getenv("VERIF_BUDGET"); s != "" {
			if d, err := time.ParseDuration(s); err == nil {
				budget = d
			}
		}
	}
	tmp, err := os.MkdirTemp("", "verifcheck-"+ck.ID+"-")
	if err != nil {
		fmt.Fprintln(os.Stderr, "HARNESS-ERROR:", err)
		return 3
	}
	defer os.RemoveAll(tmp)
	self, _ := os.Executable()
	phases := ck.Phases(tier)
	var results []*PhaseResult
	deadline := start.Add(budget)
	for pi, ph := range phases {
		n := nworkers
		if ph.NoShard {
			n = 1
		}
		bin := self
		if ph.Race {
			bin = os.Getenv("VERIF_RACE_BIN")
			if bin == "" {
				results = append(results, &PhaseResult{Phase: ph.Name, Classes: map[string]int64{}, CapHit: "race-detector build of the checker not available: phase skipped"})
				continue
			}
		}
		remaining := time.Until(deadline)
		// a phase may use its weighted share of what is left (unused time flows to the later phases)
		var wsum float64
		for _, q := range phases[pi:] {
			wsum += weightOf(q)
		}
		per := time.Duration(float64(remaining) * weightOf(ph) / wsum)
		if tierS == "quick" {
			// quick: phases normally finish well inside the budget; let one use what is left minus a reserve
			per = remaining - time.Duration(len(phases)-pi-1)*8*time.Second
		}
		if per < 8*time.Second {
			per = 8 * time.Second
		}
		total := &PhaseResult{Phase: ph.Name, Classes: map[string]int64{}}
		phaseStart := time.Now()
		defer func(t *PhaseResult, st time.Time) {
			if t.WallS == 0 {
				t.WallS = time.Since(st).Seconds()
			}
		}(total, phaseStart)
		var mu sync.Mutex
		var wg sync.WaitGroup
		for s := 0; s < n; s++ {
			wg.Add(1)
			go func(s int) {
				defer wg.Done()
				out := filepath.Join(tmp, fmt.Sprintf("%s-%d.json", ph.Name, s))
				for attempt := 0; attempt < 6; attempt++ {
					// a shard resumed after a worker death gets what is left of the phase's time, not a fresh share
					left := per - time.Since(phaseStart)
					if attempt > 0 && left < 15*time.Second {
						mu.Lock()
						if !strings.Contains(total.CapHit, "resumed shard ran out of time") {
							if total.CapHit != "" {
								total.CapHit += "; "
							}
							total.CapHit += "a resumed shard ran out of time"
						}
						mu.Unlock()
						break
					}
					if attempt == 0 {
						left = per
					}
					if again := runShard(ck, ph, bin, tierS, s, n, out, left, total, &mu); !again {
						break
					}
				}
			}(s)
		}
		wg.Wait()
		total.WallS = time.Since(phaseStart).Seconds()
		results = append(results, total)
	}
	_ = deadline
	return finishCheck(ck, tier, tierS, self, results, start)
}

// runShard runs one worker of a phase; it returns true when the worker died on a pinned case and
// the shard should be run again stepping over that case.
func runShard(ck *Check, ph *Phase, bin, tierS string, s, n int, out string, per time.Duration, total *PhaseResult, mu *sync.Mutex) (again bool) {
	{
		{
			{
				cmd := exec.Command(bin, ck.ID, "--tier", tierS, "--worker", fmt.Sprintf("%s:%d/%d", ph.Name, s, n), "--out", out, "--budget", per.String())
				cmd.Env = append(os.Environ(), "GOMAXPROCS=1", "GORACE=halt_on_error=1 exitcode=66")
				cmd.Env = append(cmd.Env, ph.Env...)
				if ph.Race {
					cmd.Env = append(cmd.Env, "VERIF_WORKER_AS=0") // the race runtime maps a huge shadow region
				}
				outb, err := cmd.CombinedOutput()
				mu.Lock()
				defer mu.Unlock()
				b, rerr := os.ReadFile(out)
				if err != nil || rerr != nil {
					// the worker died: pin the case from its breadcrumb
					crumb, _ := os.ReadFile(out + ".crumb")
					line := strings.SplitN(string(crumb), "\n", 2)[0]
					tail := string(outb)
					if len(tail) > 1500 {
						tail = tail[:700] + "\n…\n" + tail[len(tail)-700:]
					}
					var ch []int
					if json.Unmarshal([]byte(line), &ch) == nil && len(ch) > 0 {
						fl := firstLine(tail)
						if fl == "" && err != nil {
							fl = err.Error() // no output at all: killed from outside (e.g. "signal: killed" by the kernel's OOM killer)
						}
						class, what := "worker-death", "worker process died (fatal error, fault or out-of-memory) while executing this case: "+fl
						if strings.Contains(string(outb), "WARNING: DATA RACE") {
							class, what = "data-race", "the race detector reports a data race on this schedule: "+raceSummary(string(outb))
							tail = raceReport(string(outb))
						}
						total.Failures = append(total.Failures, &FailureRec{Property: ck.ID, Phase: ph.Name, Class: class,
							Msg: what, Choices: ch,
							Case: map[string]interface{}{"class": class, "output": tail}})
						// run the shard again, stepping over this case, so that the rest of it is explored
						if f, err := os.OpenFile(out+".skip", os.O_APPEND|os.O_CREATE|os.O_WRONLY, 0o644); err == nil {
							f.WriteString(line + "\n")
							f.Close()
							again = true
						}
					} else {
						total.HarnessErr = fmt.Sprintf("worker %d of phase %s died without a breadcrumb: %v\n%s", s, ph.Name, err, tail)
					}
					total.WorkersDied = append(total.WorkersDied, fmt.Sprintf("%s:%d", ph.Name, s))
					return
				}
				var r PhaseResult
				if err := json.Unmarshal(b, &r); err != nil {
					total.HarnessErr = err.Error()
					return
				}
				total.merge(&r)
			}
		}
	}
	return false
}

func finishCheck(ck *Check, tier universe.Tier, tierS, self string, results []*PhaseResult, start time.Time) int {
	// ---- classify failures
	findings := loadFindings()
	violations := 0
	knownHit := map[*Finding]int{}
	var harnessErrs []string
	printed := map[string]bool{}
	os.MkdirAll(filepath.Join(OutDir, "replays"), 0o755)
	for _, r := range results {
		if r.HarnessErr != "" {
			harnessErrs = append(harnessErrs, r.HarnessErr)
		}
		sort.SliceStable(r.Failures, func(i, j int) bool {
			a, b := r.Failures[i], r.Failures[j]
			if a.Cost != b.Cost {
				return a.Cost < b.Cost
			}
			return len(a.Choices) < len(b.Choices)
		})
		for _, f := range r.Failures {
			matched := false
			for _, kf := range findings {
				if kf.matches(f) {
					knownHit[kf]++
					matched = true
					break
				}
			}
			if matched {
				continue
			}
			key := f.Property + "|" + f.Class + "|" + f.Msg
			if len(key) > 300 {
				key = key[:300]
			}
			if printed[key] || violations >= 20 {
				violations++
				continue
			}
			printed[key] = true
			// write the replay artefact, confirm it in fresh processes
			path := writeReplay(ck, tierS, f)
			cbin := self
			if p := findPhase(ck, tier, f.Phase); p != nil && p.Race && os.Getenv("VERIF_RACE_BIN") != "" {
				cbin = os.Getenv("VERIF_RACE_BIN")
			}
			conf := confirm(cbin, ck.ID, tierS, path, 5)
			if conf == 0 && f.Class == "worker-death" && (strings.Contains(f.Msg, "out of memory") || strings.Contains(f.Msg, "signal: killed")) {
				// a worker ran out of its address-space limit on a case that needs no such memory when run alone:
				// memory held by the harness itself (cached value alphabets), not a finding about the library -
				// a cap on this run's coverage, not an error
				for _, r := range results {
					if r.Phase == f.Phase {
						note := "a worker exhausted its memory limit (case not reproducible alone: harness memory); the rest of its shard was resumed"
						if !strings.Contains(r.CapHit, note) {
							if r.CapHit != "" {
								r.CapHit += "; "
							}
							r.CapHit += note
						}
					}
				}
				os.Remove(path)
				continue
			}
			if conf == 0 {
				harnessErrs = append(harnessErrs, fmt.Sprintf("failure did not reproduce in any of 5 fresh-process replays (treated as harness error, not a violation): %s replay=%s", f.Msg, path))
				continue
			}
			violations++
			fmt.Printf("VIOLATION property=%s replay=%s\n", f.Property, path)
			fmt.Printf("  phase=%s class=%s reproduced=%d/5 deviations=%d\n  %s\n", f.Phase, f.Class, conf, f.Cost, f.Msg)
		}
	}
	for _, kf := range findings {
		if kf.Status == "open" && kf.Property == ck.ID {
			if knownHit[kf] > 0 {
				fmt.Printf("KNOWN-FINDING: property=%s %s (%d cases this run)\n", kf.Property, kf.What, knownHit[kf])
			}
		}
	}
	wall := time.Since(start).Seconds()
	writeEvidence(ck, tierS, results, violations, knownHit, harnessErrs, wall)
	for _, r := range results {
		fmt.Printf("%s/%s: wall=%.0fs executions=%d states=%d transitions=%d distinct_outcomes=%d max_depth=%d max_dev=%d failures=%d cap=%q\n",
			ck.ID, r.Phase, r.WallS, r.Executions, r.States, r.Transitions, r.Distinct, r.MaxDepth, r.MaxCost, len(r.Failures), r.CapHit)
	}
	if len(harnessErrs) > 0 {
		for _, e := range harnessErrs {
			fmt.Fprintln(os.Stderr, "HARNESS-ERROR:", e)
		}
		if violations == 0 {
			return 3
		}
	}
	if violations > 0 {
		return 1
	}
	fmt.Printf("OK property=%s tier=%s wall=%.1fs\n", ck.ID, tierS, wall)
	return 0
}

// raceReport extracts the race detector's report from a worker's output.
func raceReport(s string) string {
	i := strings.Index(s, "WARNING: DATA RACE")
	if i < 0 {
		return ""
	}
	s = s[i:]
	if j := strings.Index(s, "=================="); j > 0 {
		s = s[:j]
	}
	if len(s) > 3000 {
		s = s[:3000] + "…"
	}
	return s
}

// raceSummary names the two conflicting accesses (first frame of each stack).
func raceSummary(s string) string {
	var parts []string
	lines := strings.Split(raceReport(s), "\n")
	for i, l := range lines {
		if (strings.HasPrefix(l, "Write at") || strings.HasPrefix(l, "Read at") || strings.HasPrefix(l, "Previous write at") || strings.HasPrefix(l, "Previous read at")) && i+1 < len(lines) {
			parts = append(parts, strings.TrimSpace(strings.SplitN(l, " by ", 2)[0])+" in "+strings.TrimSpace(lines[i+1]))
		}
	}
	return strings.Join(parts, " / ")
}

func firstLine(s string) string {
	for _, l := range strings.Split(s, "\n") {
		if strings.TrimSpace(l) != "" {
			if len(l) > 200 {
				l = l[:200]
			}
			return l
		}
	}
	return ""
}

type replayFile struct {
	Property string      `json:"property"`
	Tier     string      `json:"tier"`
	Phase    string      `json:"phase"`
	Choices  []int       `json:"choices"`
	Labels   []string    `json:"labels,omitempty"`
	Msg      string      `json:"msg"`
	Class    string      `json:"class"`
	Case     interface{} `json:"case"`
	How      string      `json:"how_to_replay"`
}

func writeReplay(ck *Check, tierS string, f *FailureRec) string {
	rf := &replayFile{Property: f.Property, Tier: tierS, Phase: f.Phase, Choices: f.Choices, Labels: f.Labels, Msg: f.Msg, Class: f.Class, Case: f.Case,
		How: "cd /verif && ./check.sh " + ck.ID + " --replay <this file>"}
	b, _ := json.MarshalIndent(rf, "", " ")
	h := sha256.Sum256(b)
	path := filepath.Join(OutDir, "replays", fmt.Sprintf("%s-%s-%s.json", ck.ID, f.Phase, hex.EncodeToString(h[:4])))
	os.WriteFile(path, b, 0o644)
	return path
}

func confirm(self, id, tierS, path string, times int) int {
	ok := 0
	for i := 0; i < times; i++ {
		cmd := exec.Command(self, id, "--tier", tierS, "--replay", path)
		cmd.Env = append(os.Environ(), "GOMAXPROCS=1", "VERIF_QUIET=1", "GORACE=halt_on_error=1 exitcode=66")
		err := cmd.Run()
		if err != nil {
			if ee, isExit := err.(*exec.ExitError); isExit && ee.ExitCode() == 4 {
				continue // harness-level problem during replay
			}
			ok++
		}
	}
	return ok
}

func runReplay(ck *Check, tier universe.Tier, path string, verbose bool) int {
	b, err := os.ReadFile(path)
	if err != nil {
		fmt.Fprintln(os.Stderr, err)
		return 4
	}
	var rf replayFile
	if err := json.Unmarshal(b, &rf); err != nil {
		fmt.Fprintln(os.Stderr, err)
		return 4
	}
	if rf.Tier == "thorough" {
		tier = universe.Thorough
	} else if rf.Tier == "quick" {
		tier = universe.Quick
	}
	ph := findPhase(ck, tier, rf.Phase)
	if ph != nil && len(ph.Env) > 0 && os.Getenv("VERIF_PHASE_ENV_SET") == "" {
		// the phase runs under a special environment (e.g. GODEBUG=clobberfree=1): re-execute with it
		self, _ := os.Executable()
		env := append(os.Environ(), ph.Env...)
		env = append(env, "VERIF_PHASE_ENV_SET=1")
		err := syscall.Exec(self, os.Args, env)
		fmt.Fprintln(os.Stderr, "re-exec with the phase environment failed:", err)
		return 4
	}
	if ph != nil && ph.Race && !RaceBuild {
		if rb := os.Getenv("VERIF_RACE_BIN"); rb != "" {
			os.Setenv("GORACE", "halt_on_error=1 exitcode=66")
			err := syscall.Exec(rb, append([]string{rb}, os.Args[1:]...), os.Environ())
			fmt.Fprintln(os.Stderr, "exec of the race build failed:", err)
			return 4
		}
	}
	if ph != nil && ph.Body == nil && CustomReplay != nil {
		v1, ok := CustomReplay(rf.Phase, rf.Choices)
		v2, _ := CustomReplay(rf.Phase, rf.Choices)
		if ok {
			if v1 != v2 {
				fmt.Fprintf(os.Stderr, "HARNESS-ERROR: replay is not deterministic (%q / %q)\n", v1, v2)
				return 4
			}
			if v1 == "" {
				if os.Getenv("VERIF_QUIET") == "" {
					fmt.Println("replay: property held on this case")
				}
				return 0
			}
			if os.Getenv("VERIF_QUIET") == "" {
				fmt.Printf("VIOLATION property=%s replay=%s\n  %s\n", rf.Property, path, v1)
			}
			return 1
		}
	}
	if ph == nil || ph.Body == nil {
		fmt.Fprintf(os.Stderr, "phase %q cannot be replayed\n", rf.Phase)
		return 4
	}
	debug.SetPanicOnFault(true)
	if !RaceBuild {
		syscall.Setrlimit(syscall.RLIMIT_AS, &syscall.Rlimit{Cur: 12 << 30, Max: 12 << 30})
	}
	quiet := os.Getenv("VERIF_QUIET") != ""
	// replay twice: the same schedule must produce the same observation
	f1, o1 := explore.ReplayOnce(rf.Choices, ph.Body)
	f2, o2 := f1, o1
	if !ph.OncePerProcess {
		f2, o2 = explore.ReplayOnce(rf.Choices, ph.Body)
	}
	if (f1 == nil) != (f2 == nil) || o1 != o2 {
		fmt.Fprintf(os.Stderr, "HARNESS-ERROR: replay is not deterministic (%v/%v, %q/%q)\n", f1 != nil, f2 != nil, o1, o2)
		return 4
	}
	if f1 == nil {
		if !quiet {
			fmt.Println("replay: property held on this case")
		}
		return 0
	}
	if !quiet {
		cb, _ := json.MarshalIndent(f1.Case, "", " ")
		fmt.Printf("VIOLATION property=%s replay=%s\n  %s\n%s\n", rf.Property, path, f1.Msg, cb)
	}
	return 1
}

// ---- evidence -----------------------------------------------------------------

func writeEvidence(ck *Check, tierS string, results []*PhaseResult, violations int, known map[*Finding]int, harnessErrs []string, wall float64) {
	var execs, states, trans, distinct int64
	classes := 0
	var samples []interface{}
	caps := []string{}
	phases := []map[string]interface{}{}
	rules := []string{}
	allPhases := ck.Phases(tierOf(tierS))
	for i, r := range results {
		if n := r.Extra["evaluations"]; n > 0 {
			execs += n - r.Executions // batches: count the individual evaluations
		}
		execs += r.Executions
		states += r.States
		trans += r.Transitions
		distinct += r.Distinct
		classes += len(r.Classes)
		for _, s := range r.Samples {
			if len(samples) < 8 {
				samples = append(samples, map[string]interface{}{"phase": r.Phase, "case": s})
			}
		}
		if r.CapHit != "" {
			caps = append(caps, r.Phase+": "+r.CapHit)
		}
		ph := map[string]interface{}{"phase": r.Phase, "executions": r.Executions, "states": r.States, "transitions": r.Transitions,
			"distinct_outcomes": r.Distinct, "outcome_classes": len(r.Classes), "max_choice_depth": r.MaxDepth, "max_deviations": r.MaxCost,
			"deviation_bound": allPhases[i].Bound, "wall_s": r.WallS, "failures": len(r.Failures), "exhaustive": r.CapHit == "" && len(r.WorkersDied) == 0}
		if len(r.Extra) > 0 {
			ph["counts"] = r.Extra
		}
		if len(r.Classes) <= 40 {
			ph["classes"] = r.Classes
		}
		phases = append(phases, ph)
		if allPhases[i].Rule != "" {
			rules = append(rules, r.Phase+": "+allPhases[i].Rule)
		}
	}
	if len(samples) == 0 {
		samples = append(samples, "no sample recorded")
	}
	kf := []string{}
	for f, n := range known {
		kf = append(kf, fmt.Sprintf("%s (%d cases)", f.What, n))
	}
	sort.Strings(kf)
	seed, _ := strconv.Atoi(os.Getenv("VERIF_SEED"))
	cov := map[string]interface{}{
		"evaluations":                   execs,
		"distinct_nontrivial":           distinct,
		"rule":                          strings.Join(rules, " | "),
		"samples":                       samples,
		"states":                        states,
		"transitions":                   trans,
		"traces_validated_against_impl": execs,
		"explorer_executions":           explorerExecs(results),
		"exhaustive":                    len(caps) == 0 && len(harnessErrs) == 0,
		"phases":                        phases,
		"caps_hit":                      caps,
		"known_findings_matched":        kf,
		"explanation":                   ck.Explanation,
	}
	if len(harnessErrs) > 0 {
		cov["harness_errors"] = harnessErrs
	}
	ev := map[string]interface{}{
		"property_id": ck.ID,
		"tier":        tierS,
		"seed":        seed,
		"level":       ck.Level,
		"coverage":    cov,
		"assumptions": ck.Assumptions,
		"wall_s":      wall,
		"violations":  violations,
	}
	b, _ := json.MarshalIndent(ev, "", " ")
	os.MkdirAll(filepath.Join(OutDir, "evidence"), 0o755)
	os.WriteFile(filepath.Join(OutDir, "evidence", ck.ID+".json"), append(b, '\n'), 0o644)
}

func explorerExecs(rs []*PhaseResult) int64 {
	var n int64
	for _, r := range rs {
		n += r.Executions
	}
	return n
}

func tierOf(s string) universe.Tier {
	if s == "thorough" {
		return universe.Thorough
	}
	return universe.Quick
}
