package universe

import (
	"math"
	"strings"

	"github.com/cloudwego/frugal/zverif/ref"
)

// Tier selects the size of alphabets.
type Tier int

const (
	Quick Tier = iota
	Thorough
)

func scalarFull(k ref.Kind, tier Tier) []*ref.Val {
	switch k {
	case ref.KBool:
		return []*ref.Val{ref.Bool(false), ref.Bool(true)}
	case ref.KI8:
		return ints(k, 0, 1, -1, math.MinInt8, math.MaxInt8, 0x5a)
	case ref.KI16:
		return ints(k, 0, 1, -1, math.MinInt16, math.MaxInt16, 0x0102)
	case ref.KI32:
		return ints(k, 0, 1, -1, math.MinInt32, math.MaxInt32, 0x01020304)
	case ref.KI64:
		return ints(k, 0, 1, -1, math.MinInt64, math.MaxInt64, 0x0102030405060708)
	case ref.KEnum:
		return ints(k, 0, 1, -1, math.MinInt32, math.MaxInt32)
	case ref.KDouble:
		return []*ref.Val{
			ref.Double(0), ref.Double(math.Copysign(0, -1)), ref.Double(1.5), ref.Double(math.Inf(1)), ref.Double(math.Inf(-1)),
			ref.DoubleBits(0x7ff8000000000001), ref.DoubleBits(0xfff8dead0000beef), ref.DoubleBits(1),
		}
	case ref.KString:
		r := []*ref.Val{ref.Str(""), ref.Str("a"), ref.Str("\xe9"), ref.Str("ab\x00"), ref.Str("\xff\xfe\x80 not utf-8")} // (one byte >= 0x80: not a rune)
		for _, n := range strLens(tier) {
			r = append(r, ref.Str(fill(n)))
		}
		return r
	case ref.KBinary:
		r := []*ref.Val{ref.Bin(nil), ref.Bin([]byte{}), ref.Bin([]byte("a")), ref.Bin([]byte("ab\x00"))}
		for _, n := range strLens(tier) {
			r = append(r, ref.Bin([]byte(fill(n))))
		}
		return r
	}
	panic("not scalar")
}

func strLens(tier Tier) []int {
	if tier == Quick {
		return []int{255, 257, 2049, 4097}
	}
	return []int{255, 256, 257, 2047, 2048, 2049, 4095, 4096, 4097, 65535, 65536, 70000}
}

func fill(n int) string {
	var sb strings.Builder
	for i := 0; i < n; i++ {
		sb.WriteByte(byte('A' + i%53))
	}
	return sb.String()
}

func ints(k ref.Kind, xs ...int64) []*ref.Val {
	r := make([]*ref.Val, len(xs))
	for i, x := range xs {
		r[i] = ref.Int(k, x)
	}
	return r
}

// Nth returns the j-th filler value of type t: deterministic, pairwise distinct
// as map keys for distinct j (as far as the domain allows).
func Nth(t *ref.Type, j int) *ref.Val {
	switch t.Kind {
	case ref.KBool:
		return ref.Bool(j%2 == 1)
	case ref.KI8:
		return ref.Int(t.Kind, int64(int8(j*37+1)))
	case ref.KI16:
		return ref.Int(t.Kind, int64(int16(j*257+3)))
	case ref.KI32:
		return ref.Int(t.Kind, int64(int32(j*65537+5)))
	case ref.KI64:
		return ref.Int(t.Kind, int64(j)*0x100000001+7)
	case ref.KEnum:
		return ref.Int(t.Kind, int64(int32(j*3-1)))
	case ref.KDouble:
		if j%7 == 6 {
			return ref.DoubleBits(0x7ff8000000000000 | uint64(j))
		}
		return ref.Double(float64(j) + 0.25)
	case ref.KString:
		return ref.Str("s" + itoa(j) + strings.Repeat("x", j%5))
	case ref.KBinary:
		return ref.Bin([]byte("b" + itoa(j)))
	case ref.KStruct:
		v := ref.ZeroStruct(t.St)
		for i, f := range t.St.Fields {
			if (i+j)%2 == 0 || f.Req == ref.ReqRequired {
				v.F[i] = NthNonNil(f.Type, j+i)
			}
		}
		return v
	case ref.KList, ref.KSet:
		n := j % 3
		v := &ref.Val{K: t.Kind, L: make([]*ref.Val, n)}
		for i := range v.L {
			v.L[i] = NthNonNil(t.Elem, j+i)
		}
		return v
	case ref.KMap:
		n := j % 3
		if t.Key.Kind == ref.KBool && n > 2 {
			n = 2
		}
		v := &ref.Val{K: ref.KMap, M: make([][2]*ref.Val, n)}
		for i := range v.M {
			v.M[i] = [2]*ref.Val{NthNonNil(t.Key, j+i), NthNonNil(t.Elem, j+i)}
		}
		return v
	}
	panic("bad kind")
}

// NthNonNil is Nth; pointers are never nil.
func NthNonNil(t *ref.Type, j int) *ref.Val { return Nth(t, j) }

func itoa(j int) string {
	if j == 0 {
		return "0"
	}
	neg := j < 0
	if neg {
		j = -j
	}
	var b []byte
	for j > 0 {
		b = append([]byte{byte('0' + j%10)}, b...)
		j /= 10
	}
	if neg {
		return "-" + string(b)
	}
	return string(b)
}

// maxKeys is the number of distinct keys available for a key type.
func maxKeys(k *ref.Type, want int) int {
	switch k.Kind {
	case ref.KBool:
		if want > 2 {
			return 2
		}
	case ref.KI8:
		if want > 200 {
			return 200
		}
	}
	return want
}

// containerSizes returns the element counts enumerated for containers at the
// top level of a field.
func containerSizes(t *ref.Type, tier Tier) []int {
	s := []int{3, 8, 9}
	if t.Kind != ref.KMap {
		s = append(s, 1100) // wide: more elements than any per-call budget (depth bound, small scratch blocks)
	}
	if t.Elem != nil && t.Elem.Kind.FixedWidth() > 0 && t.Kind != ref.KMap {
		// exact multiples of the block sizes bulk encoders/decoders may work in (2 KB = 256 i64 / 512 i32 /
		// 1024 i16), one more, and an odd count (element pairs written with wide stores)
		s = append(s, 256, 257, 512, 1024, 1025)
		if tier == Thorough {
			s = append(s, 255, 511, 513, 1023, 2047, 2048, 2049, 4096) // (counts beyond 65535 are in the C01 "huge" phase: in the generic alphabets every copy of such a value costs ~7 MB of model memory and the workers ran out of it)
		}
	}
	if tier == Thorough {
		if t.Kind == ref.KMap {
			s = append(s, 27, 28, 53, 54, 55, 56, 105, 106, 107, 108, 109, 110, 111, 112)
		} else {
			s = append(s, 31, 32, 33, 127, 128, 129)
		}
	} else if t.Kind == ref.KMap {
		s = append(s, 27, 109)
	}
	return s
}

// small returns a reduced alphabet of t (first few values of the full one).
func small(t *ref.Type, tier Tier, depth int) []*ref.Val {
	a := Alphabet(t, tier, depth)
	if len(a) <= 3 {
		return a
	}
	// keep nil-ish, a plain and an extreme representative
	return []*ref.Val{a[0], a[1], a[len(a)-1]}
}

// Alphabet returns the enumerated values of type t at nesting depth depth
// (0 = the field's own type).  Pointer types include nil.
func Alphabet(t *ref.Type, tier Tier, depth int) []*ref.Val {
	var r []*ref.Val
	if t.Ptr {
		r = append(r, nil)
	}
	switch t.Kind {
	case ref.KStruct:
		z := ref.ZeroStruct(t.St)
		r = append(r, z)
		// each field set alone
		for i, f := range t.St.Fields {
			v := ref.ZeroStruct(t.St)
			v.F[i] = Nth(f.Type, 3+i)
			r = append(r, v)
		}
		// all set
		v := ref.ZeroStruct(t.St)
		for i, f := range t.St.Fields {
			v.F[i] = Nth(f.Type, 5+i)
		}
		if t.St.Unknown {
			v.Unk = []byte{ref.WI16, 0x7f, 0xf0, 0x12, 0x34}
		}
		r = append(r, v)
		return r
	case ref.KList, ref.KSet:
		r = append(r, ref.NilOf(t.Kind), &ref.Val{K: t.Kind, L: []*ref.Val{}})
		if depth >= 2 {
			r = append(r, &ref.Val{K: t.Kind, L: []*ref.Val{Nth(t.Elem, 1)}})
			return r
		}
		ea := Alphabet(t.Elem, tier, depth+1)
		if depth == 1 {
			ea = small(t.Elem, tier, depth+1)
		}
		for _, e := range ea {
			r = append(r, &ref.Val{K: t.Kind, L: []*ref.Val{e}})
		}
		sa := small(t.Elem, tier, depth+1)
		if depth == 0 {
			for _, a := range sa {
				for _, b := range sa {
					r = append(r, &ref.Val{K: t.Kind, L: []*ref.Val{a.Clone(), b.Clone()}})
				}
			}
			for _, n := range containerSizes(t, tier) {
				v := &ref.Val{K: t.Kind, L: make([]*ref.Val, n)}
				for i := range v.L {
					v.L[i] = Nth(t.Elem, i)
				}
				r = append(r, v)
			}
		} else {
			r = append(r, &ref.Val{K: t.Kind, L: []*ref.Val{Nth(t.Elem, 1), Nth(t.Elem, 2)}})
		}
		return r
	case ref.KMap:
		r = append(r, ref.NilOf(ref.KMap), &ref.Val{K: ref.KMap, M: [][2]*ref.Val{}})
		if depth >= 2 {
			r = append(r, &ref.Val{K: ref.KMap, M: [][2]*ref.Val{{Nth(t.Key, 1), Nth(t.Elem, 1)}}})
			return r
		}
		ka := Alphabet(t.Key, tier, depth+1)
		va := Alphabet(t.Elem, tier, depth+1)
		if depth == 1 {
			ka, va = small(t.Key, tier, depth+1), small(t.Elem, tier, depth+1)
		}
		for _, k := range ka {
			r = append(r, &ref.Val{K: ref.KMap, M: [][2]*ref.Val{{k, Nth(t.Elem, 2)}}})
		}
		for _, v := range va {
			r = append(r, &ref.Val{K: ref.KMap, M: [][2]*ref.Val{{Nth(t.Key, 2), v}}})
		}
		if depth == 0 {
			// two entries: both orders of two distinct keys x small values
			sv := small(t.Elem, tier, depth+1)
			for _, a := range sv {
				for _, b := range sv {
					r = append(r, &ref.Val{K: ref.KMap, M: [][2]*ref.Val{{Nth(t.Key, 0), a.Clone()}, {Nth(t.Key, 1), b.Clone()}}})
				}
			}
			for _, n := range containerSizes(t, tier) {
				n = maxKeys(t.Key, n)
				v := &ref.Val{K: ref.KMap, M: make([][2]*ref.Val, n)}
				for i := range v.M {
					v.M[i] = [2]*ref.Val{Nth(t.Key, i), Nth(t.Elem, i)}
				}
				r = append(r, v)
			}
		} else {
			r = append(r, &ref.Val{K: ref.KMap, M: [][2]*ref.Val{{Nth(t.Key, 0), Nth(t.Elem, 1)}, {Nth(t.Key, 1), Nth(t.Elem, 2)}}})
		}
		return r
	}
	return append(r, scalarFull(t.Kind, tier)...)
}

// StructValues enumerates values of a whole struct: the full Cartesian product
// of the field alphabets when it has at most maxProduct elements, otherwise
// all values with at most two fields away from the base value (deviation
// bounding), base = first alphabet value of every field.
func StructValues(s *ref.Struct, tier Tier, maxProduct int) []*ref.Val {
	alph := make([][]*ref.Val, len(s.Fields))
	prod := 1
	for i, f := range s.Fields {
		alph[i] = Alphabet(f.Type, tier, 0)
		if prod <= maxProduct {
			prod *= len(alph[i])
		}
	}
	var out []*ref.Val
	mk := func(idx []int) *ref.Val {
		v := &ref.Val{K: ref.KStruct, F: make([]*ref.Val, len(s.Fields))}
		for i := range s.Fields {
			v.F[i] = alph[i][idx[i]].Clone()
		}
		return v
	}
	idx := make([]int, len(s.Fields))
	if prod <= maxProduct {
		for {
			out = append(out, mk(idx))
			k := len(idx) - 1
			for k >= 0 {
				idx[k]++
				if idx[k] < len(alph[k]) {
					break
				}
				idx[k] = 0
				k--
			}
			if k < 0 {
				break
			}
		}
		return out
	}
	out = append(out, mk(idx))
	wideStruct := len(idx) > 6
	for i := range idx {
		for a := 1; a < len(alph[i]); a++ {
			idx[i] = a
			out = append(out, mk(idx))
			for j := i + 1; j < len(idx); j++ {
				if wideStruct && (j != i+1 || a > 3) {
					continue // wide structs: second deviation only in the next field, first few values
				}
				for b := 1; b < len(alph[j]); b++ {
					if wideStruct && b > 3 {
						break
					}
					idx[j] = b
					out = append(out, mk(idx))
				}
				idx[j] = 0
			}
		}
		idx[i] = 0
	}
	return out
}
