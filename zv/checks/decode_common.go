package checks

import (
	"fmt"
	"runtime/metrics"

	"github.com/cloudwego/frugal/zverif/ref"
	"github.com/cloudwego/frugal/zverif/universe"
)

var allocSample = []metrics.Sample{{Name: "/gc/heap/allocs:bytes"}}

func allocBytes() uint64 {
	metrics.Read(allocSample)
	return allocSample[0].Value.Uint64()
}

// decodeVerdict is the outcome of comparing one real DecodeObject call with the reference decoder.
type decodeVerdict struct {
	Class string // "" = agrees with the reference
	Msg   string
	Res   Res
	Exp   *ref.DecResult
	Got   *ref.Val
	Alloc uint64
}

type decodeOpts struct {
	Prior      *ref.Val // destination content before the call (nil = zero value)
	Guard      bool     // place the input right before an inaccessible page
	AllocBound bool     // check allocation proportional to input
	SkipValue  bool     // compare success/n only
}

// allocFactor: bytes of memory a decoder may need per input byte (the largest
// Go representation per wire byte is a by-pointer empty struct in a map:
// ~2 wire bytes for a bucket slot, a pointer and an object) plus fixed slack
// for per-call scratch and span-granular accounting.
const (
	allocFactor = 256
	allocSlack  = 512 << 10
)

// decodeAndCompare runs the real decoder on msg for type s and compares with the reference decoder.
func decodeAndCompare(s *ref.Struct, msg []byte, o decodeOpts) *decodeVerdict {
	v := &decodeVerdict{}
	v.Exp = ref.Decode(s, msg, o.Prior, ref.DecOpts{})
	dst := universe.New(s, o.Prior)
	in := msg
	if o.Guard {
		in = getGuard().Place(msg)
	} else {
		in = append(make([]byte, 0, len(msg)), msg...)
	}
	var a0 uint64
	if o.AllocBound {
		a0 = allocBytes()
	}
	v.Res = Dec(in, dst.Interface())
	if o.AllocBound {
		v.Alloc = allocBytes() - a0
		// the runtime accounts allocated bytes span-wise when a span is handed back, so one reading can
		// include earlier allocations: a reading above the bound is repeated (the decode is deterministic,
		// the accounting noise is not) and the smallest of four readings counts
		// (accounting noise is at most a few spans: an excess of more than 8 MB is not repeated)
		for rep := 0; rep < 3 && v.Alloc > uint64(allocFactor*len(msg)+allocSlack) && v.Alloc < uint64(allocFactor*len(msg)+allocSlack)+8<<20; rep++ {
			d2 := universe.New(s, o.Prior)
			in2 := append(make([]byte, 0, len(msg)), msg...)
			b0 := allocBytes()
			Dec(in2, d2.Interface())
			if a := allocBytes() - b0; a < v.Alloc {
				v.Alloc = a
			}
		}
		if v.Alloc > uint64(allocFactor*len(msg)+allocSlack) {
			v.Class, v.Msg = "alloc-blowup", fmt.Sprintf("DecodeObject allocated %d bytes for a %d-byte input", v.Alloc, len(msg))
			return v
		}
	}
	r := v.Res
	switch {
	case r.Panic != nil:
		v.Class, v.Msg = "panic", fmt.Sprintf("DecodeObject panics: %v", r.Panic)
		if r.Runtime {
			v.Class = "runtime-panic"
		}
	case v.Exp.OK && r.Err != nil && v.Exp.Unpinned:
		// accepted by the reference only through an unpinned leniency: rejection is fine too
	case v.Exp.OK && r.Err != nil:
		v.Class, v.Msg = "wellformed-rejected", fmt.Sprintf("DecodeObject rejects a well-formed message: %v", r.Err)
	case !v.Exp.OK && r.Err == nil:
		v.Class, v.Msg = "malformed-accepted", fmt.Sprintf("DecodeObject accepts (n=%d) input the reference validator rejects (%v at offset %d, missing required %v)", r.N, v.Exp.Err, v.Exp.ErrOff, v.Exp.Missing)
	case v.Exp.OK && r.N != v.Exp.N:
		v.Class, v.Msg = "consumed-mismatch", fmt.Sprintf("DecodeObject consumed %d bytes, the message ends at %d", r.N, v.Exp.N)
	case v.Exp.OK && !o.SkipValue && !v.Exp.OddBool && !v.Exp.DupByValueStruct:
		v.Got = universe.ReadStruct(s, dst.Elem())
		if g, e := v.Got.Canon(), v.Exp.V.Canon(); g != e {
			v.Class, v.Msg = "value-mismatch", "decoded value differs from the reference decoder's"
		}
	}
	return v
}

func (v *decodeVerdict) detail() interface{} {
	m := map[string]interface{}{"result": v.Res.String(), "reference": fmt.Sprintf("ok=%v n=%d err=%v missing=%v", v.Exp.OK, v.Exp.N, v.Exp.Err, v.Exp.Missing)}
	if v.Got != nil {
		m["got"] = v.Got.Short()
		m["want"] = v.Exp.V.Short()
	}
	return m
}
