#!/bin/sh
# Runs the repository's pinned baseline test suite (hooks/guard OFF: plain build,
# no -tags verif, no overlay) and prints pass/fail counts.
export GOPROXY=off GOSUMDB=off GOTOOLCHAIN=local GOFLAGS=
R=${VERIF_REPO:-/repo}
fail=0
for m in . ./fuzz ./tests; do
  (cd "$R/$m" && go test -mod=mod -vet=off -count=1 -timeout 25m ./... ) || fail=1
done
exit $fail
