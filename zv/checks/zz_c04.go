package checks

import (
	"github.com/cloudwego/frugal/zverif/explore"
	"github.com/cloudwego/frugal/zverif/harness"
	"github.com/cloudwego/frugal/zverif/universe"
)

// (in a file sorting after codec.go: the C04 check must be registered first)
func init() {
	ck := harness.Lookup("C04")
	old := ck.Phases
	ck.Phases = func(tier universe.Tier) []*harness.Phase {
		return append(old(tier), &harness.Phase{
			Name: "default-initialiser-types",
			Rule: "the default-table type: 13 optional fields x alphabet(declared default) x (alphabet(value) + the default), top level and nested in a list: EncodedSize by pointer and by value = bytes written; exact and one-short buffers",
			Body: func(c *explore.C) { c04Static(c) },
		})
	}
}
