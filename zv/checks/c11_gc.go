package checks

import (
	"bytes"
	"fmt"
	"reflect"
	"runtime"

	"github.com/cloudwego/frugal/zverif/explore"
	"github.com/cloudwego/frugal/zverif/harness"
	"github.com/cloudwego/frugal/zverif/hooks"
	"github.com/cloudwego/frugal/zverif/ref"
	"github.com/cloudwego/frugal/zverif/universe"
)

// Phase "retained-over-time": the retained bytes must still be there when the message is forwarded
// later - after collections and allocation churn (a proxy holds decoded objects for a while), and
// after the SAME destination object was used for a later message while a by-value copy of the
// earlier one is kept.  Runs under GODEBUG=clobberfree=1.

var c11Keep [][]byte

func init() {
	ck := harness.Lookup("C11")
	old := ck.Phases
	ck.Phases = func(tier universe.Tier) []*harness.Phase {
		ps := old(tier)
		extra := &harness.Phase{
			Name: "retained-over-time", Env: []string{"GODEBUG=clobberfree=1"},
			Rule: "6 nesting forms x 3 levels x 19 unknown field types x nested struct with/without variable-size fields x {collections + churn before re-encoding, a later decode into the same object with a by-value copy of the earlier value kept, both}; the re-encoding of the earlier value must still be the reference's",
			Body: func(c *explore.C) { c11OverTime(c, tier) },
		}
		// before the component phases
		out := append([]*harness.Phase{}, ps[:1]...)
		out = append(out, extra)
		return append(out, ps[1:]...)
	}
}

func c11OverTime(c *explore.C, tier universe.Tier) {
	nest := c11Nests[c.Choose(len(c11Nests), explore.Data, "nest")]
	uts := c11UnknownTypes()
	e1 := c11Extra{level: c.Choose(3, explore.Data, "level"), id: 9, t: uts[c.Choose(len(uts), explore.Data, "unknown-type")]}
	fixedN := c.Bool(explore.Data, "nested-struct-fixed-size-only")
	mode := c.Choose(3, explore.Data, "what-happens-in-between") // 0 gc+churn, 1 reuse destination keeping a copy, 2 both
	harness.Cur.Crumb(c.Choices())
	hooks.Reset()
	extras := []c11Extra{e1, {level: e1.level, id: 301, t: universe.Sc(ref.KString)}}
	W := c11Build(nest, false, extras, fixedN)
	T := c11Build(nest, true, nil, fixedN)
	msg1 := ref.Encode(W, c11Value(W, 3))
	msg2 := ref.Encode(W, c11Value(W, 11))
	how := fmt.Sprintf("nest=%s extras=%v fixed-size-nested=%v mode=%d", nest, describeExtras(extras), fixedN, mode)
	exp1 := ref.Decode(T, msg1, nil, ref.DecOpts{})
	if !exp1.OK {
		panic("harness error: reference rejects the writer message")
	}
	want1 := ref.Encode(T, exp1.V)
	dst := universe.New(T, nil)
	in1 := append([]byte{}, msg1...)
	if r := Dec(in1, dst.Interface()); r.Panic != nil || r.Err != nil {
		c.Fail(fmt.Sprintf("decode failed: %v [%s]", r, how), mkCase("C11", "decode-failed", T, nil, msg1, nil))
		return
	}
	for i := range in1 {
		in1[i] = 0xEE // the input buffer is the caller's again
	}
	kept := dst
	if mode >= 1 {
		// the application keeps the first value by value and decodes the next message into the same object
		cp := reflect.New(dst.Type().Elem())
		cp.Elem().Set(dst.Elem())
		kept = cp
		in2 := append([]byte{}, msg2...)
		if r := Dec(in2, dst.Interface()); r.Panic != nil || r.Err != nil {
			c.Fail(fmt.Sprintf("second decode into the same object failed: %v [%s]", r, how), mkCase("C11", "decode-failed", T, nil, msg2, nil))
			return
		}
	}
	if mode != 1 {
		runtime.GC()
		runtime.GC()
		c11Keep = c11Keep[:0]
		for k := 0; k < 64; k++ {
			b := make([]byte, 16<<(k%8))
			for x := range b {
				b[x] = 0x3c
			}
			c11Keep = append(c11Keep, b)
		}
		runtime.GC()
	}
	// only the retained bytes and the scalar / string fields of the kept value are compared: pointer-valued
	// parts are legitimately shared between the shallow copy and the reused object
	got := universe.ReadStruct(T, kept.Elem())
	if mode == 0 {
		if got.Canon() != exp1.V.Canon() {
			c.Fail("a decoded value with retained unknown fields changed after collections and allocation churn ["+how+"]", mkCase("C11", "retained-changed", T, exp1.V, msg1, map[string]string{"got": got.Short()}))
			return
		}
		buf := make([]byte, len(want1)+16)
		r := Enc(buf, kept.Interface())
		gc, err := ref.Canonical(buf[:r.N])
		wc, _ := ref.Canonical(want1)
		if r.Panic != nil || r.Err != nil || err != nil || !bytes.Equal(gc, wc) {
			c.Fail(fmt.Sprintf("re-encoding after collections and churn differs from the reference: %v [%s]", r, how), mkCase("C11", "reencode-mismatch", T, exp1.V, buf[:r.N], map[string]string{"reference": hx(want1)}))
			return
		}
	} else if !bytes.Equal(got.Unk, exp1.V.Unk) {
		c.Fail(fmt.Sprintf("the retained unknown bytes of a kept by-value copy changed when the original object was decoded into again: %x, were %x [%s]", got.Unk, exp1.V.Unk, how),
			mkCase("C11", "retained-changed", T, exp1.V, msg1, nil))
		return
	}
	harness.Cur.Outcome(harness.Hash64(msg1, []byte{byte(mode)}), fmt.Sprintf("%s/mode%d", nest, mode))
}
