package checks

import (
	"syscall"
)

// guardMem places byte strings at the very end of an anonymous mapping that is
// followed by a PROT_NONE page, so that reading even one byte past the input
// faults (the workers run with SetPanicOnFault, turning the fault into a
// recoverable panic that is reported as an over-read).
type guardMem struct {
	region []byte
	usable int
}

var guard1 *guardMem

func getGuard() *guardMem {
	if guard1 == nil {
		const usable = 4 << 20
		page := syscall.Getpagesize()
		m, err := syscall.Mmap(-1, 0, usable+page, syscall.PROT_READ|syscall.PROT_WRITE, syscall.MAP_ANON|syscall.MAP_PRIVATE)
		if err != nil {
			panic("harness error: mmap: " + err.Error())
		}
		if err := syscall.Mprotect(m[usable:], syscall.PROT_NONE); err != nil {
			panic("harness error: mprotect: " + err.Error())
		}
		guard1 = &guardMem{region: m, usable: usable}
	}
	return guard1
}

// Place copies b so that it ends at the guard page; the result has cap == len.
func (g *guardMem) Place(b []byte) []byte {
	if len(b) > g.usable {
		panic("harness error: input larger than the guarded region")
	}
	dst := g.region[g.usable-len(b) : g.usable : g.usable]
	copy(dst, b)
	return dst
}
