//go:build verife3

package checks

import "github.com/cloudwego/frugal/zverif/harness"

const e3Available = true

// e3Phases returns the component (explicit-state, engine E3) phases of a property.
func e3Phases(id string) []*harness.Phase {
	return e3Registry[id]
}

var e3Registry = map[string][]*harness.Phase{}
