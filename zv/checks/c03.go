package checks

import (
	"fmt"

	"github.com/cloudwego/frugal/zverif/explore"
	"github.com/cloudwego/frugal/zverif/harness"
	"github.com/cloudwego/frugal/zverif/hooks"
	"github.com/cloudwego/frugal/zverif/ref"
	"github.com/cloudwego/frugal/zverif/universe"
)

// readerFamily: 2-4 field reader types plus nested containers of structs.
func readerFamily(tier universe.Tier) *family {
	return cached(fmt.Sprint("readers", tier), func() *family {
		f := &family{name: "readers"}
		sc := universe.Sc
		D, R, O := ref.ReqDefault, ref.ReqRequired, ref.ReqOptional
		al := universe.Reduced14()
		for ai := range al {
			for bi := range al {
				if tier == universe.Quick && (ai+2*bi)%3 != 0 {
					continue
				}
				a, b := *al[ai], *al[bi]
				ids := idPairs[(ai+bi)%len(idPairs)]
				f.items = append(f.items, mk(fd(ids[0], D, &a), fd(ids[1], []ref.Req{D, O, R}[(ai*3+bi)%3], &b)))
			}
		}
		a6 := universe.Reduced6()
		for ai := range a6 {
			for bi := range a6 {
				for ci := range a6 {
					if tier == universe.Quick && (ai+bi+ci)%3 != 0 {
						continue
					}
					a, b, c := *a6[ai], *a6[bi], *a6[ci]
					f.items = append(f.items, mk(fd(1, D, &a), fd(2, O, &b), fd(300, D, &c)))
				}
			}
		}
		inner := func() *ref.Struct {
			return mk(fd(1, D, sc(ref.KI32)), fd(2, O, ptrTo(sc(ref.KString))), fd(3, D, universe.ListOf(sc(ref.KI16))))
		}
		in := inner()
		f.items = append(f.items,
			mk(fd(1, D, universe.StPtr(in)), fd(2, D, sc(ref.KI64))),
			mk(fd(1, D, universe.StVal(in)), fd(2, D, sc(ref.KBool))),
			mk(fd(1, D, universe.ListOf(universe.StPtr(in))), fd(2, O, sc(ref.KString))),
			mk(fd(1, D, universe.ListOf(universe.StVal(in)))),
			mk(fd(1, D, universe.MapOf(sc(ref.KI32), universe.StPtr(in))), fd(9, D, sc(ref.KI8))),
			mk(fd(1, D, universe.MapOf(sc(ref.KString), universe.StVal(in)))),
			mk(fd(1, D, universe.MapOf(universe.StPtr(in), universe.ListOf(universe.StPtr(in))))),
			mk(fd(1, D, sc(ref.KI32)), fd(2, D, sc(ref.KString)), fd(3, O, universe.StPtr(in)), fd(4, D, universe.SetOf(sc(ref.KDouble)))),
		)
		// nested structs made of several fixed-size, always-written fields (what size/count shortcuts key on)
		fx := func() *ref.Struct {
			return mk(fd(1, D, sc(ref.KI64)), fd(2, D, sc(ref.KDouble)), fd(3, D, sc(ref.KI32)))
		}
		f.items = append(f.items,
			mk(fd(1, D, universe.ListOf(universe.StPtr(fx())))),
			mk(fd(1, D, universe.ListOf(universe.StVal(fx()))), fd(2, D, sc(ref.KI8))),
			mk(fd(1, D, universe.MapOf(sc(ref.KI32), universe.StPtr(fx())))),
			mk(fd(1, D, universe.MapOf(sc(ref.KString), universe.StVal(fx())))),
			mk(fd(1, D, universe.SetOf(universe.StPtr(fx()))), fd(2, O, universe.StPtr(fx()))),
		)
		// a reader that retains unknown fields (among the readers that take schema edits in every tier: only an
		// edited writer sends it fields it does not know)
		withUnk := mk(fd(1, D, sc(ref.KI32)), fd(4, D, universe.StPtr(in)))
		withUnk.Unknown = true
		f.items = append(f.items, withUnk)
		c03Core = len(f.items) + 6 // readers beyond this index take no schema edits in the quick tier
		f.items = append(f.items, denseIDs().items...)
		for _, id := range []uint16{511, 512, 1023, 1024, 1025, 2047, 2048, 4095, 4096, 8191, 8192, 16384} {
			f.items = append(f.items, mk(fd(id-1, D, sc(ref.KI32)), fd(id, R, sc(ref.KString)), fd(id+1, O, sc(ref.KI64))))
		}
		return f
	})
}

// foreign field types a newer/older writer may add or retype to: one per wire type and nesting form.
func evolveTypes() []*ref.Type {
	sc := universe.Sc
	lf := universe.Leaf()
	return []*ref.Type{
		sc(ref.KBool), sc(ref.KI8), sc(ref.KI16), sc(ref.KI32), sc(ref.KI64), sc(ref.KDouble), sc(ref.KString),
		universe.StPtr(lf), universe.ListOf(sc(ref.KI32)), universe.SetOf(sc(ref.KString)), universe.MapOf(sc(ref.KI8), universe.StPtr(lf)),
		universe.ListOf(universe.StPtr(lf)), universe.MapOf(sc(ref.KString), universe.ListOf(sc(ref.KI64))),
	}
}

type schemaEdit struct {
	Kind  string // add | remove | retype | renumber | inner-remove | inner-add
	Idx   int
	T     *ref.Type
	ID    uint16
	Inner int // inner-remove: index of the field of the nested struct
}

// innerStruct returns the struct type nested (directly or in containers) in t.
func innerStruct(t *ref.Type) *ref.Struct {
	switch {
	case t == nil:
		return nil
	case t.Kind == ref.KStruct:
		return t.St
	case t.Kind == ref.KMap:
		if s := innerStruct(t.Elem); s != nil {
			return s
		}
		return innerStruct(t.Key)
	}
	return innerStruct(t.Elem)
}

// withInner deep-copies t, replacing every nested struct by fn(struct).
func withInner(t *ref.Type, fn func(*ref.Struct) *ref.Struct) *ref.Type {
	if t == nil {
		return nil
	}
	c := *t
	if t.St != nil {
		c.St = fn(t.St)
	}
	c.Elem = withInner(t.Elem, fn)
	c.Key = withInner(t.Key, fn)
	return &c
}

func (e schemaEdit) String() string {
	switch e.Kind {
	case "add":
		return fmt.Sprintf("add %d:%s", e.ID, e.T)
	case "remove":
		return fmt.Sprintf("remove field #%d", e.Idx)
	case "retype":
		return fmt.Sprintf("retype field #%d to %s", e.Idx, e.T)
	case "inner-remove":
		return fmt.Sprintf("remove field #%d of the struct nested in field #%d", e.Inner, e.Idx)
	case "inner-add":
		return fmt.Sprintf("add %d:%s to the struct nested in field #%d", e.ID, e.T, e.Idx)
	}
	return fmt.Sprintf("renumber field #%d to %d", e.Idx, e.ID)
}

func usedID(s *ref.Struct, id uint16) bool { return s.Field(id) != nil }

// editsOf enumerates the single schema edits applicable to s.
func editsOf(s *ref.Struct) []schemaEdit {
	var es []schemaEdit
	minID, maxID := uint16(65535), uint16(0)
	for _, f := range s.Fields {
		if f.ID < minID {
			minID = f.ID
		}
		if f.ID > maxID {
			maxID = f.ID
		}
	}
	var addIDs []uint16
	if minID > 0 {
		addIDs = append(addIDs, minID-1)
	}
	for id := minID + 1; id < maxID; id++ {
		if !usedID(s, id) {
			addIDs = append(addIDs, id)
			break
		}
	}
	if maxID < 65535 {
		addIDs = append(addIDs, maxID+1)
	}
	if maxID < 40000 {
		addIDs = append(addIDs, 40000)
	}
	for _, id := range addIDs {
		for _, t := range evolveTypes() {
			es = append(es, schemaEdit{Kind: "add", T: t, ID: id})
		}
	}
	for i := range s.Fields {
		es = append(es, schemaEdit{Kind: "remove", Idx: i})
		for _, t := range evolveTypes() {
			es = append(es, schemaEdit{Kind: "retype", Idx: i, T: t})
		}
		for _, id := range []uint16{maxID + 7, 0} {
			if !usedID(s, id) {
				es = append(es, schemaEdit{Kind: "renumber", Idx: i, ID: id})
			}
		}
		// the writer's version of a nested struct may lack or add fields too
		if in := innerStruct(s.Fields[i].Type); in != nil {
			for j := range in.Fields {
				es = append(es, schemaEdit{Kind: "inner-remove", Idx: i, Inner: j})
			}
			for _, t := range evolveTypes()[:8] {
				if !usedID(in, 77) {
					es = append(es, schemaEdit{Kind: "inner-add", Idx: i, ID: 77, T: t})
				}
			}
		}
	}
	return es
}

func applyEdit(s *ref.Struct, e schemaEdit) *ref.Struct {
	w := &ref.Struct{Unknown: false}
	for _, f := range s.Fields {
		c := *f
		c.NoCopy = false
		w.Fields = append(w.Fields, &c)
	}
	switch e.Kind {
	case "add":
		if usedID(w, e.ID) {
			return w
		}
		w.Fields = append(w.Fields, &ref.Field{ID: e.ID, Req: ref.ReqDefault, Type: e.T})
	case "remove":
		if e.Idx < len(w.Fields) {
			w.Fields = append(w.Fields[:e.Idx:e.Idx], w.Fields[e.Idx+1:]...)
		}
	case "retype":
		if e.Idx < len(w.Fields) {
			w.Fields[e.Idx].Type = e.T
			if w.Fields[e.Idx].Req == ref.ReqOptional && e.T.Kind.IsScalarish() {
				w.Fields[e.Idx].Req = ref.ReqDefault
			}
		}
	case "renumber":
		if e.Idx < len(w.Fields) && !usedID(w, e.ID) {
			w.Fields[e.Idx].ID = e.ID
		}
	case "inner-remove", "inner-add":
		if e.Idx < len(w.Fields) {
			w.Fields[e.Idx].Type = withInner(w.Fields[e.Idx].Type, func(in *ref.Struct) *ref.Struct {
				c := &ref.Struct{}
				for j, f := range in.Fields {
					if e.Kind == "inner-remove" && j == e.Inner {
						continue
					}
					cf := *f
					c.Fields = append(c.Fields, &cf)
				}
				if e.Kind == "inner-add" && !usedID(c, e.ID) {
					c.Fields = append(c.Fields, &ref.Field{ID: e.ID, Req: ref.ReqDefault, Type: e.T})
					c.SortFields()
				}
				return c
			})
		}
	}
	w.SortFields()
	return w
}

// writerValues: product of reduced per-field alphabets.
func writerValues(w *ref.Struct, tier universe.Tier) []*ref.Val {
	al := make([][]*ref.Val, len(w.Fields))
	for i, f := range w.Fields {
		a := universe.Alphabet(f.Type, tier, 1)
		if len(a) > 3 {
			a = []*ref.Val{a[0], a[len(a)/2], a[len(a)-1]}
		}
		al[i] = a
	}
	var out []*ref.Val
	idx := make([]int, len(al))
	for {
		v := &ref.Val{K: ref.KStruct, F: make([]*ref.Val, len(al))}
		for i := range al {
			v.F[i] = al[i][idx[i]].Clone()
		}
		out = append(out, v)
		k := len(idx) - 1
		for k >= 0 {
			idx[k]++
			if idx[k] < len(al[k]) {
				break
			}
			idx[k] = 0
			k--
		}
		if k < 0 || len(al) == 0 {
			break
		}
	}
	return out
}

func permutations(n int) [][]int {
	if n == 0 {
		return [][]int{{}}
	}
	var out [][]int
	var rec func(cur []int, used []bool)
	rec = func(cur []int, used []bool) {
		if len(cur) == n {
			out = append(out, append([]int{}, cur...))
			return
		}
		for i := 0; i < n; i++ {
			if !used[i] {
				used[i] = true
				rec(append(cur, i), used)
				used[i] = false
			}
		}
	}
	rec(nil, make([]bool, n))
	return out
}

// priorOf returns a "previous message" destination content for reader type s:
// every field set to a distinct value, by-value struct fields left in their
// default state (merge-versus-reset of those is not pinned by any property).
func priorOf(s *ref.Struct) *ref.Val {
	v := ref.ZeroStruct(s)
	for i, f := range s.Fields {
		if f.Type.Kind == ref.KStruct && !f.Type.Ptr {
			continue
		}
		v.F[i] = universe.Nth(f.Type, 17+i)
	}
	if s.Unknown {
		v.Unk = []byte{ref.WBool, 0x70, 0x00, 1}
	}
	return v
}

var trailers = [][]byte{nil, {0}, {0xde, 0xad, 0xbe, 0xef, 0x0b, 0x00, 0x01, 0xff}}

func init() {
	harness.Register(&harness.Check{
		ID:          "C03",
		Level:       "model_checking",
		Explanation: "Bounded exhaustive enumeration (E1): reader types x writer schemas within <=k schema edits (deviation-bounded: add/remove/retype/renumber) x writer values x ALL field-order permutations (top level and nested structs) x trailing bytes x prior destination contents; the real DecodeObject is compared with the reference decoder on every message.",
		Assumptions: []string{"go1.23.5 toolchain", "by-value nested struct fields are compared only from a default-state prior (merge-versus-reset is not pinned)", "messages are produced by the reference encoder from the writer schema"},
		Phases: func(tier universe.Tier) []*harness.Phase {
			bound := 1
			if tier == universe.Thorough {
				bound = 2
			}
			return []*harness.Phase{{
				Name:  "evolution",
				Bound: bound,
				Rule:  "reader family (two-field over 14 forms, three-field over 6 forms, nested containers of structs, unknown-field holder) x schema edits with <=bound deviations x product of 3-value field alphabets; one explorer execution = one (reader, writer, value) and covers all field permutations x 3 trailers x 2 priors; distinct by message bytes",
				Body:  func(c *explore.C) { c03Body(c, tier) },
			}}
		},
	})
}

var c03Core int

var (
	lastWKey  string
	lastWVals []*ref.Val
)

func c03Body(c *explore.C, tier universe.Tier) {
	fam := readerFamily(tier)
	ti := c.Choose(len(fam.items), explore.Data, "reader")
	T := fam.items[ti]
	W := T
	var applied []string
	for k := 0; k < 2; k++ {
		if tier == universe.Quick && ti >= c03Core {
			break // id-shape readers: unedited writers only (all field orders, trailers, priors, duplicates)
		}
		es := editsOf(W)
		if tier == universe.Thorough && k == 1 && ti%8 != 0 {
			break // second edit only for every 8th reader (bounded sub-family)
		}
		e := c.Choose(1+len(es), explore.Dev, "schema-edit")
		if e == 0 {
			break
		}
		W = applyEdit(W, es[e-1])
		applied = append(applied, es[e-1].String())
	}
	if W == T {
		W = applyEdit(T, schemaEdit{Kind: "none"})
	}
	wkey := fmt.Sprint(c.Choices())
	if wkey != lastWKey {
		lastWKey, lastWVals = wkey, writerValues(W, tier)
	}
	vals := lastWVals
	vi := c.Choose(len(vals), explore.Data, "value")
	v := vals[vi]
	harness.Cur.Crumb(c.Choices())
	hooks.Reset()
	perms := permutations(len(W.Fields))
	if len(perms) > 24 {
		perms = perms[:24]
	}
	prior := priorOf(T)
	n := 0
	for pi, perm := range perms {
		msg := ref.EncodeWith(W, v, func(st *ref.Struct) []int {
			if st == W {
				return perm
			}
			// nested structs: rotate by the permutation index so that inner orders vary too
			k := len(st.Fields)
			if k == 0 {
				return nil
			}
			o := make([]int, k)
			for i := range o {
				o[i] = (i + pi) % k
			}
			if pi%2 == 1 {
				for a, b := 0, k-1; a < b; a, b = a+1, b-1 {
					o[a], o[b] = o[b], o[a]
				}
			}
			return o
		})
		for tr, trailer := range trailers {
			if tr > 0 && pi > 1 {
				continue // trailers with the first two orders
			}
			full := append(append([]byte{}, msg...), trailer...)
			for pr, p := range []*ref.Val{nil, prior} {
				if pr == 1 && tr == 2 {
					continue
				}
				n++
				dv := decodeAndCompare(T, full, decodeOpts{Prior: p, Guard: true})
				if dv.Class != "" {
					cs := mkCase("C03", dv.Class, T, v, full, map[string]interface{}{"writer": W.String(), "edits": applied, "field_order": perm, "prior": p.Short(), "verdict": dv.detail()})
					c.Fail(fmt.Sprintf("%s [writer %s, order %v, %d trailing bytes, prior=%v]", dv.Msg, W, perm, len(trailer), pr == 1), cs)
					return
				}
			}
		}
		if pi == 0 {
			harness.Cur.Outcome(harness.Hash64(tiKey(ti), msg), fmt.Sprintf("edits=%d", len(applied)))
		}
	}
	// the same fields sent twice with different values (legal on the wire): the last occurrence wins
	if len(vals) > 1 {
		v2 := vals[(vi+1)%len(vals)]
		m1, m2 := ref.Encode(W, v), ref.Encode(W, v2)
		dup := append(append([]byte{}, m1[:len(m1)-1]...), m2...)
		n++
		dv := decodeAndCompare(T, dup, decodeOpts{Guard: true})
		if dv.Class != "" {
			cs := mkCase("C03", dv.Class, T, v2, dup, map[string]interface{}{"writer": W.String(), "edits": applied, "what": "every field occurs twice; first occurrence " + v.Short(), "verdict": dv.detail()})
			c.Fail(fmt.Sprintf("%s [writer %s, every field sent twice]", dv.Msg, W), cs)
			return
		}
	}
	harness.Cur.Evals(int64(n))
	harness.Cur.Sample(func() interface{} {
		return map[string]interface{}{"reader": T.String(), "writer": W.String(), "edits": applied, "value": v.Short(), "permutations": len(perms)}
	})
}
