//go:build verif && verife3

// Export hook for the component-level (E3) checks and for the lock-free reader
// invariants of C08.  Added to package internal/reflect through the build
// overlay only; nothing of frugal is rewritten.  If the internal API changes
// and this file no longer compiles, check.sh falls back to a build without it
// and the component phases are reported as unavailable.
package reflect

import (
	"unsafe"
)

// ---- span (bump allocator) ----

type VerifSpan struct{ s span }

func NewVerifSpan() *VerifSpan {
	v := &VerifSpan{}
	v.s.init()
	return v
}

func (v *VerifSpan) Malloc(n, align int) unsafe.Pointer { return v.s.Malloc(n, align) }

// State returns (offset, block base, block size).
func (v *VerifSpan) State() (int, uintptr, int) { return v.s.p, uintptr(v.s.b), v.s.n }

const VerifSpanBlock = defaultDecoderMemSize

// ---- mapStructDesc (lock-free descriptor map) ----

type VerifDescMap struct {
	m    *mapStructDesc
	toks []*structDesc
}

func NewVerifDescMap(ntokens int) *VerifDescMap {
	v := &VerifDescMap{m: newMapStructDesc()}
	for i := 0; i < ntokens; i++ {
		v.toks = append(v.toks, &structDesc{maxID: uint16(i)})
	}
	return v
}

// Get returns the token index stored for key, -1 if none.
func (v *VerifDescMap) Get(key uintptr) int {
	sd := v.m.Get(key)
	if sd == nil {
		return -1
	}
	return int(sd.maxID)
}

func (v *VerifDescMap) Set(key uintptr, tok int) { v.m.Set(key, v.toks[tok]) }

const VerifDescMapBuckets = mapStructDescBuckets

// ---- bitset ----

type VerifBitset struct{ b bitset }

func (v *VerifBitset) Set(i uint16)       { v.b.set(i) }
func (v *VerifBitset) Unset(i uint16)     { v.b.unset(i) }
func (v *VerifBitset) Test(i uint16) bool { return v.b.test(i) }

// ---- unknownFields ----

type VerifUnknown struct{ u unknownFields }

func (v *VerifUnknown) Reset()               { v.u.Reset() }
func (v *VerifUnknown) Add(off, sz int)      { v.u.Add(off, sz) }
func (v *VerifUnknown) Size() int            { return v.u.Size() }
func (v *VerifUnknown) Copy(b []byte) []byte { return v.u.Copy(b) }

// ---- invariants of the process-wide descriptor map (C08) ----

// VerifSdsSlot returns the address of the currently published slot slice for
// the bucket of abiType (0 if none) and its items as (abiType, desc) pairs.
//
//go:norace
func VerifSdsSlot(abiType uintptr) (uintptr, []uintptr) {
	p := sds.slots[abiType&mapStructDescBuckets].Load()
	if p == nil {
		return 0, nil
	}
	var out []uintptr
	for _, it := range *p {
		out = append(out, it.abiType, uintptr(unsafe.Pointer(it.sd)))
	}
	return uintptr(unsafe.Pointer(p)), out
}

// VerifDescIncomplete walks the descriptor at address sd (as returned by
// VerifSdsSlot) and returns a description of the first nested struct type whose
// descriptor link is missing ("" if the descriptor is complete): a descriptor
// reachable lock-free must be fully built.
//
//go:norace
func VerifDescIncomplete(sd uintptr) string {
	seen := map[*structDesc]bool{}
	return descIncomplete((*structDesc)(unsafe.Pointer(sd)), seen, 0)
}

//go:norace
func descIncomplete(d *structDesc, seen map[*structDesc]bool, depth int) string {
	if d == nil || seen[d] || depth > 8 {
		return ""
	}
	seen[d] = true
	for _, f := range d.fields {
		if s := typeIncomplete(f.Type, seen, depth); s != "" {
			return d.rt.String() + " field " + s
		}
	}
	return ""
}

//go:norace
func typeIncomplete(t *tType, seen map[*structDesc]bool, depth int) string {
	if t == nil {
		return ""
	}
	switch t.T {
	case tSTRUCT:
		if t.Sd == nil {
			return t.RT.String() + " has no descriptor"
		}
		return descIncomplete(t.Sd, seen, depth+1)
	case tMAP:
		if s := typeIncomplete(t.K, seen, depth); s != "" {
			return s
		}
		return typeIncomplete(t.V, seen, depth)
	case tLIST, tSET:
		return typeIncomplete(t.V, seen, depth)
	}
	return ""
}
