// Command overlaygen binds the verification machinery to the current working
// tree of /repo without modifying it: it rewrites (AST level, imports only)
// every non-test Go file of the frugal module that imports sync or sync/atomic
// so that it uses the scheduler-aware shims, adds the shim packages as virtual
// packages inside frugal's import-path tree, generates the `verif` export hook
// from the package-level variables it finds, and emits a `go build -overlay`
// JSON file.
//
//	overlaygen -repo /repo -verif /verif -out <tmpdir> [-plain]
package main

import (
	"bytes"
	"encoding/json"
	"flag"
	"fmt"
	"go/ast"
	"go/build"
	"go/format"
	"go/parser"
	"go/printer"
	"go/token"
	"os"
	"path/filepath"
	"regexp"
	"sort"
	"strconv"
	"strings"
)

// the build context the checker is compiled with: default platform plus the verif tag
var buildCtx = func() build.Context {
	c := build.Default
	c.BuildTags = append(c.BuildTags, "verif")
	return c
}()

const shimBase = "github.com/cloudwego/frugal/internal/verifshim/"

// immutable-after-init package-level variables (registration tables, lookup
// tables, sentinel errors): never reset.
var immutable = map[string]bool{
	"listAppendFuncs": true, "mapAppendFuncs": true, "containerTypes": true, "typeToSize": true, "t2s": true,
	"simpleTypes": true, "minWireSize": true, "wireTags": true, "keywordTab": true, "i64type": true, "bytetype": true,
	"zerobase": true, "hackErrMsg": true, "errType": true, "errDepthLimitExceeded": true, "errNegativeSize": true,
	"MaxInlineDepth": true, "MaxInlineILSize": true,
}

type impSpec struct{ Name, Path string }

var pkgImports = map[string]map[impSpec]bool{}

type pkgVar struct {
	Pkg, Name, Init, Type string
	Class                 string // reset | immutable | sync | unknown-reset
}

func main() {
	repo := flag.String("repo", "/repo", "")
	verif := flag.String("verif", "/verif", "")
	out := flag.String("out", "", "scratch directory for rewritten files")
	flag.Parse()
	if *out == "" {
		fail("need -out")
	}
	overlay := map[string]string{}
	var vars []pkgVar
	fset := token.NewFileSet()
	rewritten := 0
	err := filepath.Walk(*repo, func(path string, info os.FileInfo, err error) error {
		if err != nil {
			return err
		}
		if info.IsDir() {
			name := info.Name()
			if path != *repo && (strings.HasPrefix(name, ".") || strings.HasPrefix(name, "_") || name == "testdata") {
				return filepath.SkipDir
			}
			// nested modules (tests/, fuzz/) are not part of the frugal module
			if path != *repo {
				if _, err := os.Stat(filepath.Join(path, "go.mod")); err == nil {
					return filepath.SkipDir
				}
			}
			return nil
		}
		if !strings.HasSuffix(path, ".go") || strings.HasSuffix(path, "_test.go") {
			return nil
		}
		// files excluded by build constraints (GOOS/GOARCH/tags/Go version) are not part of the build
		if ok, err := buildCtx.MatchFile(filepath.Dir(path), filepath.Base(path)); err == nil && !ok {
			return nil
		}
		src, err := os.ReadFile(path)
		if err != nil {
			return err
		}
		f, err := parser.ParseFile(fset, path, src, parser.ParseComments)
		if err != nil {
			return err
		}
		rel, _ := filepath.Rel(*repo, filepath.Dir(path))
		hooked := rel == "internal/reflect" || rel == "internal/defs"
		if hooked {
			vars = append(vars, collectVars(fset, f, rel, src)...)
			if pkgImports[rel] == nil {
				pkgImports[rel] = map[impSpec]bool{}
			}
		}
		changed := false
		if hooked {
			// func init() bodies become callable: a state reset re-runs them after re-initialising the
			// package-level variables, exactly as a fresh process does (variables they set - feature
			// probes, routine tables - would otherwise read as zero after a reset)
			var added []string
			for _, d := range f.Decls {
				if fd, ok := d.(*ast.FuncDecl); ok && fd.Recv == nil && fd.Name.Name == "init" && fd.Body != nil {
					initCounter++
					name := fmt.Sprintf("verifInit%03d", initCounter)
					fd.Name.Name = name
					added = append(added, name)
					pkgInits[rel] = append(pkgInits[rel], name)
				}
			}
			if len(added) > 0 {
				changed = true
				initShims[path] = added
			}
		}
		for _, imp := range f.Imports {
			p, _ := strconv.Unquote(imp.Path.Value)
			if hooked {
				name := p[strings.LastIndex(p, "/")+1:]
				if imp.Name != nil {
					name = imp.Name.Name
				}
				path := p
				if p == "sync" {
					path = shimBase + "vsync"
				} else if p == "sync/atomic" {
					path = shimBase + "vatomic"
				}
				if name != "_" && name != "." {
					pkgImports[rel][impSpec{name, path}] = true
				}
			}
			var np, def string
			switch p {
			case "sync":
				np, def = shimBase+"vsync", "sync"
			case "sync/atomic":
				np, def = shimBase+"vatomic", "atomic"
			default:
				continue
			}
			imp.Path.Value = strconv.Quote(np)
			if imp.Name == nil {
				imp.Name = ast.NewIdent(def)
			}
			changed = true
		}
		var buf bytes.Buffer
		if changed {
			if err := (&printer.Config{Mode: printer.UseSpaces | printer.TabIndent, Tabwidth: 8}).Fprint(&buf, fset, f); err != nil {
				return err
			}
		} else {
			buf.Write(src)
		}
		for _, name := range initShims[path] {
			fmt.Fprintf(&buf, "\nfunc init() { %s() }\n", name)
		}
		// the library's direct line to the runtime allocator: memory it asks for WITHOUT zeroing is
		// filled with garbage (what recycled memory holds is an environment answer the harness owns)
		if rel == "internal/reflect" && mallocRe.Match(buf.Bytes()) {
			nb := mallocRe.ReplaceAll(buf.Bytes(), []byte(mallocShim))
			buf.Reset()
			buf.Write(nb)
			changed = true
			dirtyMalloc = true
		}
		if !changed {
			return nil
		}
		dst := filepath.Join(*out, "rewritten", strings.ReplaceAll(strings.TrimPrefix(path, *repo+"/"), "/", "__"))
		os.MkdirAll(filepath.Dir(dst), 0o755)
		if err := os.WriteFile(dst, buf.Bytes(), 0o644); err != nil {
			return err
		}
		overlay[path] = dst
		rewritten++
		return nil
	})
	if err != nil {
		fail(err.Error())
	}
	// virtual shim packages
	for _, pkg := range []string{"sched", "vsync", "vatomic"} {
		dir := filepath.Join(*verif, "zv", "_shim", pkg)
		ents, err := os.ReadDir(dir)
		if err != nil {
			fail(err.Error())
		}
		for _, e := range ents {
			if strings.HasSuffix(e.Name(), ".go") {
				overlay[filepath.Join(*repo, "internal", "verifshim", pkg, e.Name())] = filepath.Join(dir, e.Name())
			}
		}
	}
	// generated reset hook + static export hooks
	var report []pkgVar
	for _, pk := range []string{"internal/defs", "internal/reflect"} {
		hook, rep := genHook(pk, vars)
		report = append(report, rep...)
		hookPath := filepath.Join(*out, "verif_reset_"+filepath.Base(pk)+".go")
		if err := os.WriteFile(hookPath, hook, 0o644); err != nil {
			fail(err.Error())
		}
		overlay[filepath.Join(*repo, pk, "verif_reset.go")] = hookPath
	}
	hdir := filepath.Join(*verif, "zv", "_hook")
	if ents, err := os.ReadDir(hdir); err == nil {
		for _, e := range ents {
			if strings.HasSuffix(e.Name(), ".go") {
				// name__pkgdir.go -> <repo>/<pkgdir>/name.go ; pkgdir uses '+' for '/'
				base := strings.TrimSuffix(e.Name(), ".go")
				i := strings.LastIndex(base, "__")
				if i < 0 {
					continue
				}
				pkgdir := strings.ReplaceAll(base[i+2:], "+", "/")
				overlay[filepath.Join(*repo, pkgdir, base[:i]+".go")] = filepath.Join(hdir, e.Name())
			}
		}
	}
	ov, _ := json.MarshalIndent(map[string]interface{}{"Replace": overlay}, "", " ")
	if err := os.WriteFile(filepath.Join(*out, "overlay.json"), ov, 0o644); err != nil {
		fail(err.Error())
	}
	rep, _ := json.MarshalIndent(map[string]interface{}{"rewritten_files": rewritten, "package_vars": report}, "", " ")
	os.WriteFile(filepath.Join(*out, "overlay_report.json"), rep, 0o644)
	fmt.Printf("overlaygen: %d files rewritten, %d package-level variables inventoried\n", rewritten, len(vars))
}

func fail(s string) {
	fmt.Fprintln(os.Stderr, "overlaygen:", s)
	os.Exit(2)
}

func text(fset *token.FileSet, src []byte, n ast.Node) string {
	return string(src[fset.Position(n.Pos()).Offset:fset.Position(n.End()).Offset])
}

func collectVars(fset *token.FileSet, f *ast.File, rel string, src []byte) []pkgVar {
	var r []pkgVar
	for _, d := range f.Decls {
		gd, ok := d.(*ast.GenDecl)
		if !ok || gd.Tok != token.VAR {
			continue
		}
		for _, sp := range gd.Specs {
			vs := sp.(*ast.ValueSpec)
			for i, n := range vs.Names {
				if n.Name == "_" {
					continue
				}
				v := pkgVar{Pkg: rel, Name: n.Name}
				if len(vs.Values) == len(vs.Names) {
					v.Init = text(fset, src, vs.Values[i])
				}
				if vs.Type != nil {
					v.Type = text(fset, src, vs.Type)
				}
				r = append(r, v)
			}
		}
	}
	return r
}

var dirtyMalloc bool

var (
	initCounter int
	pkgInits    = map[string][]string{} // package -> renamed init functions in build order
	initShims   = map[string][]string{} // file -> its renamed init functions
)

var mallocRe = regexp.MustCompile(`//go:linkname mallocgc runtime\.mallocgc\nfunc mallocgc\(size uintptr, typ uintptr, needzero bool\) unsafe\.Pointer\n`)

const mallocShim = `//go:linkname verifRuntimeMallocgc runtime.mallocgc
func verifRuntimeMallocgc(size uintptr, typ uintptr, needzero bool) unsafe.Pointer

// VerifDirtyMalloc makes memory obtained without zeroing hold garbage (0xA5), as recycled memory may.
var VerifDirtyMalloc = true

func mallocgc(size uintptr, typ uintptr, needzero bool) unsafe.Pointer {
	p := verifRuntimeMallocgc(size, typ, needzero)
	if !needzero && VerifDirtyMalloc && size > 0 {
		b := unsafe.Slice((*byte)(p), size)
		for i := range b {
			b[i] = 0xA5
		}
	}
	return p
}
`

// isDescMap recognises the process-wide descriptor map (a 512 KB array of slots created by a
// zero-returning constructor) by its initialiser, whatever the variable is called.
func isDescMap(v *pkgVar) bool {
	return v.Init == "newMapStructDesc()"
}

// genHook writes VerifReset for one package from its package-level variables.
func genHook(pkg string, all []pkgVar) ([]byte, []pkgVar) {
	var vars []pkgVar
	for _, v := range all {
		if v.Pkg == pkg {
			vars = append(vars, v)
		}
	}
	sort.Slice(vars, func(i, j int) bool { return vars[i].Name < vars[j].Name })
	var body, light bytes.Buffer
	needClear := false
	for i := range vars {
		v := &vars[i]
		before := body.Len()
		switch {
		case immutable[v.Name] || strings.HasPrefix(v.Name, "err"):
			v.Class = "immutable-after-init"
		case v.Type == "sync.Mutex" || v.Type == "sync.RWMutex" || v.Type == "sync.Once" || v.Type == "sync.WaitGroup":
			// back to the zero value: a Once that has fired (or a lock left held by an aborted execution)
			// would make the next execution take other paths than a fresh process
			v.Class = "sync-primitive-reset"
			fmt.Fprintf(&body, "\t%s = %s{}\n", v.Name, v.Type)
		case isDescMap(v):
			// the 512 KB descriptor map is emptied in place: allocating a fresh one per execution made
			// the collector and the scavenger the dominant cost of every check
			v.Class = "reset-in-place"
			fmt.Fprintf(&body, "\tif %s == nil {\n\t\t%s = %s\n\t} else {\n\t\tverifClear(%s)\n\t}\n", v.Name, v.Name, v.Init, v.Name)
			needClear = true
		case v.Init != "":
			v.Class = "reset"
			fmt.Fprintf(&body, "\t%s = %s\n", v.Name, v.Init)
		case v.Type != "":
			v.Class = "reset-zero"
			fmt.Fprintf(&body, "\t{\n\t\tvar z %s\n\t\t%s = z\n\t}\n", v.Type, v.Name)
		default:
			v.Class = "unknown"
		}
		// the light reset leaves out the (512 KB) descriptor map: used with never-seen-before types
		if !isDescMap(v) {
			light.Write(body.Bytes()[before:])
		}
	}
	for _, name := range pkgInits[pkg] {
		fmt.Fprintf(&body, "\t%s()\n", name)
		fmt.Fprintf(&light, "\t%s()\n", name)
	}
	if pkg == "internal/reflect" {
		light.WriteString("\tdefs.VerifReset()\n")
		body.WriteString("\tdefs.VerifReset()\n")
		pkgImports[pkg][impSpec{"defs", "github.com/cloudwego/frugal/internal/defs"}] = true
	}
	var b bytes.Buffer
	b.WriteString("//go:build verif\n\n// Code generated by overlaygen from the package-level variables of the working tree. DO NOT EDIT.\n\npackage " + filepath.Base(pkg) + "\n\n")
	var imps []impSpec
	for im := range pkgImports[pkg] {
		if strings.Contains(body.String(), im.Name+".") {
			imps = append(imps, im)
		}
	}
	sort.Slice(imps, func(i, j int) bool { return imps[i].Path < imps[j].Path })
	if len(imps) > 0 {
		b.WriteString("import (\n")
		for _, im := range imps {
			fmt.Fprintf(&b, "\t%s %q\n", im.Name, im.Path)
		}
		b.WriteString(")\n\n")
	}
	b.WriteString("// VerifReset returns every cache, pool and scratch variable of this package to\n// its initial state: the next call behaves like the first call of a fresh process.\n")
	b.WriteString("func VerifReset() {\n")
	b.Write(body.Bytes())
	b.WriteString("}\n\n// VerifResetLight is VerifReset without re-creating the descriptor map (descriptors of\n// types used so far stay registered): for executions that only use never-seen-before types.\nfunc VerifResetLight() {\n")
	b.Write(light.Bytes())
	b.WriteString("}\n")
	if needClear {
		b.WriteString("\n// verifClear overwrites *p with the zero value of its type.\nfunc verifClear[T any](p *T) {\n\tvar z T\n\t*p = z\n}\n")
	}
	out, err := format.Source(b.Bytes())
	if err != nil {
		fail("generated hook does not parse: " + err.Error() + "\n" + b.String())
	}
	return out, vars
}
