package checks

import (
	"fmt"
	"reflect"
	"unsafe"

	"github.com/cloudwego/frugal/zverif/explore"
	"github.com/cloudwego/frugal/zverif/harness"
	"github.com/cloudwego/frugal/zverif/hooks"
	"github.com/cloudwego/frugal/zverif/ref"
	"github.com/cloudwego/frugal/zverif/universe"
)

// Phase "nocopy-nested": structs with nocopy fields inside containers whose other parts (map keys,
// map values, sibling list elements, later fields of the enclosing struct) are plain strings and
// binaries.  "Nothing else views the input" is decided by a schema-driven walk over every string and
// byte slice of the decoded object: exactly the nocopy fields lie inside the input buffer.

var c14Forms = []string{"map<string:*S>", "map<string:S>", "map<*S:string>", "map<i32:*S>+string", "list<*S>+list<string>", "list<S>+binary", "map<string:list<*S>>", "*S+string", "map<string:map<string:*S>>"}

func c14NestedType(form string, core *ref.Struct) *ref.Struct {
	sc := universe.Sc
	D := ref.ReqDefault
	str, bin := sc(ref.KString), sc(ref.KBinary)
	switch form {
	case "map<string:*S>":
		return mk(fd(1, D, universe.MapOf(str, universe.StPtr(core))), fd(2, D, str))
	case "map<string:S>":
		return mk(fd(1, D, universe.MapOf(str, universe.StVal(core))), fd(2, D, bin))
	case "map<*S:string>":
		return mk(fd(1, D, universe.MapOf(universe.StPtr(core), str)), fd(2, D, str))
	case "map<i32:*S>+string":
		return mk(fd(1, D, universe.MapOf(sc(ref.KI32), universe.StPtr(core))), fd(2, D, str))
	case "list<*S>+list<string>":
		return mk(fd(1, D, universe.ListOf(universe.StPtr(core))), fd(2, D, universe.ListOf(str)))
	case "list<S>+binary":
		return mk(fd(1, D, universe.ListOf(universe.StVal(core))), fd(2, D, bin))
	case "map<string:list<*S>>":
		return mk(fd(1, D, universe.MapOf(str, universe.ListOf(universe.StPtr(core)))), fd(2, D, universe.ListOf(bin)))
	case "*S+string":
		return mk(fd(1, D, universe.StPtr(core)), fd(2, D, str), fd(3, D, universe.MapOf(str, str)))
	case "map<string:map<string:*S>>":
		return mk(fd(1, D, universe.MapOf(str, universe.MapOf(str, universe.StPtr(core)))), fd(2, D, str))
	}
	panic(form)
}

// c14Fill builds a value of t; strings get distinct non-empty contents of length n (core fields) or 4 (others).
func c14Fill(t *ref.Type, core *ref.Struct, n int, ctr *int) *ref.Val {
	text := func(k int) []byte {
		*ctr++
		b := make([]byte, k)
		for i := range b {
			b[i] = byte('A' + (*ctr*7+i)%50)
		}
		return b
	}
	switch t.Kind {
	case ref.KString, ref.KBinary:
		return &ref.Val{K: t.Kind, B: text(4)}
	case ref.KStruct:
		v := &ref.Val{K: ref.KStruct, F: make([]*ref.Val, len(t.St.Fields))}
		for i, f := range t.St.Fields {
			if t.St == core && (f.Type.Kind == ref.KString || f.Type.Kind == ref.KBinary) {
				v.F[i] = &ref.Val{K: f.Type.Kind, B: text(n)}
			} else {
				v.F[i] = c14Fill(f.Type, core, n, ctr)
			}
		}
		return v
	case ref.KList, ref.KSet:
		v := &ref.Val{K: t.Kind}
		for i := 0; i < 3; i++ {
			v.L = append(v.L, c14Fill(t.Elem, core, n, ctr))
		}
		return v
	case ref.KMap:
		v := &ref.Val{K: ref.KMap}
		for i := 0; i < 3; i++ {
			v.M = append(v.M, [2]*ref.Val{c14Fill(t.Key, core, n, ctr), c14Fill(t.Elem, core, n, ctr)})
		}
		return v
	}
	*ctr++
	return universe.Nth(t, *ctr)
}

type c14Leaf struct {
	path   string
	nocopy bool
	data   uintptr
	length uintptr
	cap    uintptr
}

// c14Leaves lists every string / byte slice of a decoded value together with whether the schema
// declares it nocopy (a nocopy field of a struct; elements of containers are never nocopy).
func c14Leaves(s *ref.Struct, rv reflect.Value) []c14Leaf {
	var out []c14Leaf
	var walk func(t *ref.Type, v reflect.Value, nocopy bool, path string)
	walkStruct := func(st *ref.Struct, v reflect.Value, path string) {
		for _, f := range st.Fields {
			walk(f.Type, v.Field(f.GoIdx), f.NoCopy, fmt.Sprintf("%s.%d", path, f.ID))
		}
	}
	walk = func(t *ref.Type, v reflect.Value, nocopy bool, path string) {
		if t.Ptr {
			if v.IsNil() {
				return
			}
			v = v.Elem()
		}
		switch t.Kind {
		case ref.KString:
			s := v.String()
			out = append(out, c14Leaf{path, nocopy, uintptr(unsafe.Pointer(unsafe.StringData(s))), uintptr(len(s)), uintptr(len(s))})
		case ref.KBinary:
			out = append(out, c14Leaf{path, nocopy, uintptr(v.UnsafePointer()), uintptr(v.Len()), uintptr(v.Cap())})
		case ref.KStruct:
			walkStruct(t.St, v, path)
		case ref.KList, ref.KSet:
			for i := 0; i < v.Len(); i++ {
				walk(t.Elem, v.Index(i), false, fmt.Sprintf("%s[%d]", path, i))
			}
		case ref.KMap:
			it := v.MapRange()
			i := 0
			for it.Next() {
				walk(t.Key, it.Key(), false, fmt.Sprintf("%s{key %d}", path, i))
				walk(t.Elem, it.Value(), false, fmt.Sprintf("%s{value %d}", path, i))
				i++
			}
		}
	}
	walkStruct(s, rv, "")
	return out
}

func c14Nested(c *explore.C, tier universe.Tier) {
	form := c14Forms[c.Choose(len(c14Forms), explore.Data, "form")]
	vs := []c14Variant{c14Variants[c.Choose(len(c14Variants), explore.Data, "variant")], c14Variants[c.Choose(len(c14Variants), explore.Data, "variant")]}
	extra := c.Choose(3, explore.Data, "third-field") // 0: none, 1: i32 after, 2: list<string> after
	swap := c.Bool(explore.Data, "wire-order")
	n := []int{1, 5, 300}[c.Choose(3, explore.Data, "length")]
	reuse := c.Bool(explore.Data, "decode-twice-into-the-same-object")
	harness.Cur.Crumb(c.Choices())
	hooks.Reset()

	core := c14Core(vs, []uint16{1, 2})
	switch extra {
	case 1:
		core.Fields = append(core.Fields, fd(3, ref.ReqDefault, universe.Sc(ref.KI32)))
	case 2:
		core.Fields = append(core.Fields, fd(3, ref.ReqDefault, universe.ListOf(universe.Sc(ref.KString))))
	}
	outer := c14NestedType(form, core)
	ctr := 0
	val := &ref.Val{K: ref.KStruct, F: make([]*ref.Val, len(outer.Fields))}
	for i, f := range outer.Fields {
		val.F[i] = c14Fill(f.Type, core, n, &ctr)
	}
	msg := ref.EncodeWith(outer, val, func(st *ref.Struct) []int {
		if st == core && swap {
			o := make([]int, len(core.Fields))
			for i := range o {
				o[i] = len(o) - 1 - i
			}
			return o
		}
		return nil
	})
	how := fmt.Sprintf("form=%s variants=%v third=%d reversed-wire-order=%v len=%d decode-twice=%v", form, vs, extra, swap, n, reuse)
	dst := universe.New(outer, nil)
	var in []byte
	rounds := 1
	if reuse {
		rounds = 2
	}
	for round := 0; round < rounds; round++ {
		in = getGuard().Place(msg)
		r := Dec(in, dst.Interface())
		if r.Panic != nil || r.Err != nil || r.N != len(msg) {
			c.Fail(fmt.Sprintf("DecodeObject of a valid message: %v [%s]", r, how), mkCase("C14", "decode-failed", outer, val, msg, nil))
			return
		}
	}
	base := uintptr(unsafe.Pointer(unsafe.SliceData(in)))
	lo, hi := base, base+uintptr(len(in))
	exp := ref.Decode(outer, msg, nil, ref.DecOpts{})
	if g := universe.ReadStruct(outer, dst.Elem()); g.Canon() != exp.V.Canon() {
		c.Fail("decoded value differs from the reference ["+how+"]", mkCase("C14", "value-mismatch", outer, val, msg, nil))
		return
	}
	views := 0
	for _, l := range c14Leaves(outer, dst.Elem()) {
		end := l.data + l.cap
		if l.cap == 0 {
			end = l.data + 1
		}
		inside := l.data != 0 && l.data < hi && lo < end
		switch {
		case l.nocopy && l.length > 0:
			if l.data < lo || l.data+l.length > hi {
				c.Fail(fmt.Sprintf("nocopy field %s is not a view of the input buffer [%s]", l.path, how), mkCase("C14", "not-a-view", outer, val, msg, nil))
				return
			}
			if l.cap != l.length {
				c.Fail(fmt.Sprintf("nocopy field %s has capacity %d beyond its %d value bytes [%s]", l.path, l.cap, l.length, how), mkCase("C14", "spare-capacity", outer, val, msg, nil))
				return
			}
			views++
		case inside && l.length > 0:
			c.Fail(fmt.Sprintf("%s is not declared nocopy but references the input buffer (data at input%+d, %d bytes) [%s]", l.path, int64(l.data)-int64(base), l.length, how), mkCase("C14", "aliases-input", outer, val, msg, nil))
			return
		}
	}
	// write-through: overwriting the input changes exactly the nocopy fields
	before := universe.ReadStruct(outer, dst.Elem())
	for i := range in {
		in[i] ^= 0x55
	}
	after := universe.ReadStruct(outer, dst.Elem())
	expAfter := mutateViews(outer, core, before, func(b []byte) {
		for i := range b {
			b[i] ^= 0x55
		}
	})
	if after.Canon() != expAfter.Canon() {
		c.Fail("after overwriting the input, the decoded value is not (original with exactly the nocopy fields changed) ["+how+"]", mkCase("C14", "write-through", outer, val, msg, map[string]string{"got": after.Short(), "want": expAfter.Short()}))
		return
	}
	harness.Cur.Outcome(harness.Hash64(msg, []byte(outer.String()), []byte{byte(rounds)}), fmt.Sprintf("%s/views%d", form, views))
	harness.Cur.Sample(func() interface{} {
		return map[string]interface{}{"type": outer.String(), "form": form, "nocopy_views": views}
	})
}
