package ref

import (
	"fmt"
	"reflect"
	"strconv"
	"strings"
)

// ParseTags is the reference reading of the documented tag language (DESIGN.md
// Appendix A): it derives the wire schema of a Go struct type from its field
// tags and Go types, independently of frugal's parser.  isEnum decides whether
// a named int64-kinded Go type annotated with its own name is an enum.
func ParseTags(rt reflect.Type) (*Struct, error) {
	return parseStruct(rt, map[reflect.Type]*Struct{})
}

func parseStruct(rt reflect.Type, seen map[reflect.Type]*Struct) (*Struct, error) {
	if s, ok := seen[rt]; ok {
		return s, nil
	}
	s := &Struct{Name: rt.Name(), GoType: rt}
	if _, ok := reflect.PtrTo(rt).MethodByName("InitDefault"); ok {
		s.HasInit = true // declares defaults (the values themselves are not part of the tags)
	}
	seen[rt] = s
	for i := 0; i < rt.NumField(); i++ {
		sf := rt.Field(i)
		if sf.Name == "_unknownFields" && sf.Type.Kind() == reflect.Slice && sf.Type.Elem().Kind() == reflect.Uint8 {
			s.Unknown, s.UnkIdx = true, i
			continue
		}
		if sf.Anonymous || sf.PkgPath != "" {
			continue
		}
		var items []string
		if t, ok := sf.Tag.Lookup("frugal"); ok {
			items = strings.Split(t, ",")
		} else if t, ok := sf.Tag.Lookup("thrift"); ok {
			items = strings.Split(t, ",")
			if len(items) == 0 {
				return nil, fmt.Errorf("%s: empty thrift tag", sf.Name)
			}
			items = items[1:]
		} else {
			continue
		}
		for k := range items {
			items[k] = strings.TrimSpace(items[k])
		}
		if len(items) == 0 {
			return nil, fmt.Errorf("%s: no id", sf.Name)
		}
		id, err := strconv.ParseUint(items[0], 10, 16)
		if err != nil || strings.HasPrefix(items[0], "+") {
			return nil, fmt.Errorf("%s: bad id %q", sf.Name, items[0])
		}
		f := &Field{ID: uint16(id), Name: sf.Name, GoIdx: i}
		if len(items) > 1 {
			switch items[1] {
			case "default":
				f.Req = ReqDefault
			case "required":
				f.Req = ReqRequired
			case "optional":
				f.Req = ReqOptional
			default:
				return nil, fmt.Errorf("%s: bad requiredness %q", sf.Name, items[1])
			}
		}
		annot := ""
		if len(items) > 2 {
			annot = items[2]
		}
		p := &annotParser{src: annot, seen: seen}
		t, err := p.typ(sf.Type, annot != "")
		if err != nil {
			return nil, fmt.Errorf("%s: %v", sf.Name, err)
		}
		f.Type = t
		if f.Req != ReqOptional && t.Ptr && t.Kind != KStruct {
			return nil, fmt.Errorf("%s: only optional fields or structs can be pointers", sf.Name)
		}
		for _, o := range items[min3(3, len(items)):] {
			if o == "nocopy" && (t.Kind == KString || t.Kind == KBinary) && !f.NoCopy {
				f.NoCopy = true
			} else {
				return nil, fmt.Errorf("%s: bad option %q", sf.Name, o)
			}
		}
		if s.Field(f.ID) != nil {
			return nil, fmt.Errorf("%s: duplicate id %d", sf.Name, f.ID)
		}
		s.Fields = append(s.Fields, f)
	}
	s.SortFields()
	return s, nil
}

func min3(a, b int) int {
	if a < b {
		return a
	}
	return b
}

type annotParser struct {
	src  string
	pos  int
	seen map[reflect.Type]*Struct
}

func (p *annotParser) tok() string {
	for p.pos < len(p.src) && (p.src[p.pos] == ' ' || p.src[p.pos] == '\t') {
		p.pos++
	}
	if p.pos >= len(p.src) {
		return ""
	}
	st := p.pos
	c := p.src[p.pos]
	p.pos++
	if c == '_' || c >= 'a' && c <= 'z' || c >= 'A' && c <= 'Z' {
		for p.pos < len(p.src) {
			d := p.src[p.pos]
			if d == '_' || d >= 'a' && d <= 'z' || d >= 'A' && d <= 'Z' || d >= '0' && d <= '9' {
				p.pos++
			} else {
				break
			}
		}
	}
	return p.src[st:p.pos]
}

func (p *annotParser) expect(s string) error {
	if t := p.tok(); t != s {
		return fmt.Errorf("expected %q, got %q", s, t)
	}
	return nil
}

// name reads IDENT or IDENT.IDENT and returns the last identifier.
func (p *annotParser) name() string {
	t := p.tok()
	save := p.pos
	if p.tok() == "." {
		return p.tok()
	}
	p.pos = save
	return t
}

// typ derives the type of a Go type, guided by the annotation when present.
func (p *annotParser) typ(gt reflect.Type, annotated bool) (*Type, error) {
	if gt.Kind() == reflect.Ptr {
		t, err := p.typ(gt.Elem(), annotated)
		if err != nil {
			return nil, err
		}
		if t.Ptr {
			return nil, fmt.Errorf("pointer to pointer")
		}
		switch t.Kind {
		case KList, KSet, KMap, KBinary:
			return nil, fmt.Errorf("pointer to container")
		}
		c := *t
		c.Ptr = true
		return &c, nil
	}
	scalar := func(k Kind, words ...string) (*Type, error) {
		if annotated {
			w := p.name()
			ok := false
			for _, x := range words {
				if w == x {
					ok = true
				}
			}
			if !ok {
				return nil, fmt.Errorf("annotation %q does not fit Go type %s", w, gt)
			}
		}
		return &Type{Kind: k}, nil
	}
	switch gt.Kind() {
	case reflect.Bool:
		return scalar(KBool, "bool")
	case reflect.Int8:
		return scalar(KI8, "i8", "byte")
	case reflect.Int16:
		return scalar(KI16, "i16")
	case reflect.Int32:
		return scalar(KI32, "i32")
	case reflect.Int64, reflect.Int:
		if annotated {
			w := p.name()
			if w == "i64" {
				return &Type{Kind: KI64, Named: gt.Name() != "" && gt.Name() != "int64" && gt.Name() != "int", GoInt: gt.Kind() == reflect.Int}, nil
			}
			if gt.Name() != "" && gt.Name() != "int64" && gt.Name() != "int" && w == gt.Name() {
				return &Type{Kind: KEnum, GoInt: gt.Kind() == reflect.Int}, nil
			}
			return nil, fmt.Errorf("annotation %q does not fit Go type %s", w, gt)
		}
		return &Type{Kind: KI64, GoInt: gt.Kind() == reflect.Int}, nil
	case reflect.Float64:
		return scalar(KDouble, "double")
	case reflect.String:
		t, err := scalar(KString, "string")
		if t != nil {
			t.Named = gt.PkgPath() != ""
		}
		return t, err
	case reflect.Struct:
		if annotated {
			w := p.name()
			if gt.Name() != "" && w != gt.Name() {
				return nil, fmt.Errorf("struct name %q does not fit %s", w, gt)
			}
		}
		st, err := parseStruct(gt, p.seen)
		if err != nil {
			return nil, err
		}
		return &Type{Kind: KStruct, St: st}, nil
	case reflect.Slice:
		if gt.Elem().Kind() == reflect.Uint8 {
			t, err := scalar(KBinary, "binary")
			if t != nil {
				t.Named = gt.Name() != ""
			}
			return t, err
		}
		if !annotated {
			return nil, fmt.Errorf("slice needs a list/set annotation")
		}
		w := p.tok()
		k := KList
		switch w {
		case "list":
		case "set":
			k = KSet
		default:
			return nil, fmt.Errorf("expected list or set, got %q", w)
		}
		if err := p.expect("<"); err != nil {
			return nil, err
		}
		e, err := p.typ(gt.Elem(), true)
		if err != nil {
			return nil, err
		}
		if err := p.expect(">"); err != nil {
			return nil, err
		}
		if e.Ptr && e.Kind != KStruct {
			return nil, fmt.Errorf("pointer element")
		}
		return &Type{Kind: k, Elem: e}, nil
	case reflect.Map:
		if annotated {
			if err := p.expect("map"); err != nil {
				return nil, err
			}
			if err := p.expect("<"); err != nil {
				return nil, err
			}
		}
		kt, err := p.typ(gt.Key(), annotated)
		if err != nil {
			return nil, err
		}
		if annotated {
			if err := p.expect(":"); err != nil {
				return nil, err
			}
		}
		vt, err := p.typ(gt.Elem(), annotated)
		if err != nil {
			return nil, err
		}
		if annotated {
			if err := p.expect(">"); err != nil {
				return nil, err
			}
		}
		switch {
		case kt.Kind == KStruct && !kt.Ptr, kt.Ptr && kt.Kind != KStruct, kt.Kind == KBinary, kt.Kind == KList, kt.Kind == KSet, kt.Kind == KMap:
			return nil, fmt.Errorf("invalid map key")
		case vt.Ptr && vt.Kind != KStruct:
			return nil, fmt.Errorf("pointer map value")
		}
		return &Type{Kind: KMap, Key: kt, Elem: vt}, nil
	}
	return nil, fmt.Errorf("unsupported Go type %s", gt)
}
