//go:build !verife3

package checks

import "github.com/cloudwego/frugal/zverif/harness"

// e3Phases returns the component (explicit-state) phases of a property.  This
// build has no access to the internal component API (the export hook did not
// compile against the working tree), so there are none.
func e3Phases(id string) []*harness.Phase { return nil }

const e3Available = false
