package checks

import (
	"fmt"
	"reflect"
	"unsafe"
)

// extent is one piece of memory a decoded object references.
type extent struct {
	addr  uintptr
	size  uintptr
	align uintptr
	path  string
	kind  string // ptr | slice | string | map
}

func (e extent) end() uintptr { return e.addr + e.size }

// Extents walks a decoded Go value and returns every pointer target, every
// slice backing array up to its capacity and every non-empty string.
func Extents(rv reflect.Value) []extent {
	var out []extent
	seen := map[uintptr]bool{}
	var walk func(rv reflect.Value, path string)
	walk = func(rv reflect.Value, path string) {
		switch rv.Kind() {
		case reflect.Ptr:
			if rv.IsNil() {
				return
			}
			a := uintptr(rv.UnsafePointer())
			et := rv.Type().Elem()
			if et.Size() > 0 {
				// a target reached twice is reported twice (the owner check flags the sharing) but walked once
				out = append(out, extent{a, et.Size(), uintptr(et.Align()), path + "*", "ptr"})
				if seen[a] {
					return
				}
				seen[a] = true
			}
			walk(rv.Elem(), path+"*")
		case reflect.Struct:
			for i := 0; i < rv.NumField(); i++ {
				walk(rv.Field(i), path+"."+rv.Type().Field(i).Name)
			}
		case reflect.String:
			if rv.Len() > 0 {
				s := rv.String()
				out = append(out, extent{uintptr(unsafe.Pointer(unsafe.StringData(s))), uintptr(len(s)), 1, path, "string"})
			}
		case reflect.Slice:
			if rv.IsNil() {
				return
			}
			et := rv.Type().Elem()
			if rv.Cap() > 0 && et.Size() > 0 {
				out = append(out, extent{uintptr(rv.UnsafePointer()), uintptr(rv.Cap()) * et.Size(), uintptr(et.Align()), path + "[]", "slice"})
			}
			switch et.Kind() {
			case reflect.Ptr, reflect.Struct, reflect.String, reflect.Slice, reflect.Map:
				for i := 0; i < rv.Len(); i++ {
					walk(rv.Index(i), fmt.Sprintf("%s[%d]", path, i))
				}
			}
		case reflect.Map:
			if rv.IsNil() {
				return
			}
			// the map object itself: every decoded map field owns its own (also when empty)
			out = append(out, extent{uintptr(rv.UnsafePointer()), 8, 8, path + "{}", "map"})
			it := rv.MapRange()
			i := 0
			for it.Next() {
				walk(it.Key(), fmt.Sprintf("%s{key%d}", path, i))
				walk(it.Value(), fmt.Sprintf("%s{val%d}", path, i))
				i++
			}
		}
	}
	walk(rv, "")
	return out
}

func overlaps(a extent, lo, hi uintptr) bool { return a.addr < hi && lo < a.end() }
