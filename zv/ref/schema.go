// Package ref is the reference model used as oracle by every check: a schema
// language, a value tree, a reference Thrift Binary encoder, a schema-less wire
// parser and a schema-driven reference decoder/validator.  It is written with
// plain Go only (no unsafe, nothing shared with frugal) and kept boring.
package ref

import (
	"fmt"
	"reflect"
	"sort"
	"strings"
)

type Kind uint8

const (
	KBool Kind = iota + 1
	KI8
	KI16
	KI32
	KI64
	KDouble
	KString
	KBinary
	KEnum
	KStruct
	KList
	KSet
	KMap
)

var kindNames = [...]string{"?", "bool", "i8", "i16", "i32", "i64", "double", "string", "binary", "enum", "struct", "list", "set", "map"}

func (k Kind) String() string { return kindNames[k] }

// Wire type codes of the Thrift Binary Protocol.
const (
	WStop   = 0
	WBool   = 2
	WByte   = 3
	WDouble = 4
	WI16    = 6
	WI32    = 8
	WI64    = 10
	WString = 11
	WStruct = 12
	WMap    = 13
	WSet    = 14
	WList   = 15
)

func (k Kind) Wire() byte {
	switch k {
	case KBool:
		return WBool
	case KI8:
		return WByte
	case KI16:
		return WI16
	case KI32, KEnum:
		return WI32
	case KI64:
		return WI64
	case KDouble:
		return WDouble
	case KString, KBinary:
		return WString
	case KStruct:
		return WStruct
	case KList:
		return WList
	case KSet:
		return WSet
	case KMap:
		return WMap
	}
	panic("bad kind")
}

// FixedWidth returns the wire width of fixed-size kinds, 0 otherwise.
func (k Kind) FixedWidth() int {
	switch k {
	case KBool, KI8:
		return 1
	case KI16:
		return 2
	case KI32, KEnum:
		return 4
	case KI64, KDouble:
		return 8
	}
	return 0
}

func (k Kind) IsScalarish() bool { return k >= KBool && k <= KEnum }

type Req uint8

const (
	ReqDefault Req = iota
	ReqRequired
	ReqOptional
)

func (r Req) String() string { return [...]string{"default", "required", "optional"}[r] }

// Type is a Thrift type together with the one bit of Go representation the
// properties talk about: whether the Go value is a pointer.
type Type struct {
	Kind Kind
	Key  *Type   // map key
	Elem *Type   // list/set element, map value
	St   *Struct // struct
	Ptr  bool    // Go representation is *T (structs anywhere; scalars/strings as optional fields)
	// Named: the Go type is a named type although the schema type is the plain one: an i64 on the
	// named int64 type that is an enum when annotated with its own name (the annotation alone decides
	// the wire type); a string / binary on a named string / byte-slice type.
	Named bool
	// GoInt: the Go representation is the platform int (KI64: a plain int; KI64+Named: the named int
	// type used as plain i64; KEnum: the named int type annotated with its own name) instead of int64.
	GoInt bool
}

type Field struct {
	ID     uint16
	Req    Req
	Type   *Type
	NoCopy bool
	Name   string // Go field name
	GoIdx  int    // index of the Go struct field
	// Default is the value the struct's default initialiser gives this field
	// (only meaningful when Struct.HasInit); nil means "nil pointer".
	Default *Val
}

type Struct struct {
	Name    string
	Fields  []*Field // in ascending id order
	Unknown bool     // declares the unknown-fields holder
	UnkIdx  int      // Go field index of the holder
	// UnknownFirst: the holder is declared before the tagged fields (hand-written structs), not after them
	UnknownFirst bool
	HasInit      bool // has a default initialiser
	// DeclReversed: the Go struct declares its fields in descending id order (the schema is unaffected)
	DeclReversed bool
	GoType       reflect.Type
}

func (s *Struct) Field(id uint16) *Field {
	for _, f := range s.Fields {
		if f.ID == id {
			return f
		}
	}
	return nil
}

func (s *Struct) SortFields() {
	sort.SliceStable(s.Fields, func(i, j int) bool { return s.Fields[i].ID < s.Fields[j].ID })
}

// Annot renders the thrift type annotation of t as used in struct tags.
func (t *Type) Annot() string {
	switch t.Kind {
	case KEnum:
		if t.GoInt {
			return "IntEnum"
		}
		return "Enum"
	case KStruct:
		if t.St.Name != "" {
			return t.St.Name
		}
		return "S"
	case KList:
		return "list<" + t.Elem.Annot() + ">"
	case KSet:
		return "set<" + t.Elem.Annot() + ">"
	case KMap:
		return "map<" + t.Key.Annot() + ":" + t.Elem.Annot() + ">"
	}
	return t.Kind.String()
}

// String renders a type including the Go pointer bit and nested struct bodies.
func (t *Type) String() string { return t.str(map[*Struct]bool{}) }

func (t *Type) str(seen map[*Struct]bool) string {
	p := ""
	if t.Ptr {
		p = "*"
	}
	switch t.Kind {
	case KStruct:
		return p + t.St.str(seen)
	case KList:
		return "list<" + t.Elem.str(seen) + ">"
	case KSet:
		return "set<" + t.Elem.str(seen) + ">"
	case KMap:
		return "map<" + t.Key.str(seen) + ":" + t.Elem.str(seen) + ">"
	}
	return p + t.Kind.String()
}

func (s *Struct) String() string { return s.str(map[*Struct]bool{}) }

func (s *Struct) str(seen map[*Struct]bool) string {
	if seen[s] {
		return "struct " + s.Name + "{…}"
	}
	seen[s] = true
	defer delete(seen, s)
	var sb strings.Builder
	sb.WriteString("struct")
	if s.Name != "" {
		sb.WriteString(" " + s.Name)
	}
	sb.WriteString("{")
	for i, f := range s.Fields {
		if i > 0 {
			sb.WriteString("; ")
		}
		fmt.Fprintf(&sb, "%d:%s %s", f.ID, f.Req, f.Type.str(seen))
		if f.NoCopy {
			sb.WriteString(",nocopy")
		}
	}
	if s.Unknown {
		sb.WriteString("; _unknownFields")
	}
	if s.HasInit {
		sb.WriteString("; InitDefault")
	}
	sb.WriteString("}")
	return sb.String()
}

// HasRequired reports whether an empty struct message can NOT be decoded as s,
// i.e. s has a required field.
func (s *Struct) HasRequired() bool {
	for _, f := range s.Fields {
		if f.Req == ReqRequired {
			return true
		}
	}
	return false
}
