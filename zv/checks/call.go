// Package checks holds one harness per property.
package checks

import (
	"encoding/hex"
	"fmt"
	"runtime"

	"github.com/cloudwego/frugal"
	"github.com/cloudwego/frugal/zverif/explore"
	"github.com/cloudwego/frugal/zverif/harness"
	"github.com/cloudwego/frugal/zverif/hooks"
	"github.com/cloudwego/frugal/zverif/ref"
	"github.com/cloudwego/frugal/zverif/universe"
)

// Res is the observable result of one API call.
type Res struct {
	N       int
	Err     error
	Panic   interface{}
	Runtime bool // the panic value is a runtime.Error (memory fault, nil dereference, index error …)
}

func (r Res) String() string {
	switch {
	case r.Panic != nil:
		return fmt.Sprintf("panic(%v)", r.Panic)
	case r.Err != nil:
		return fmt.Sprintf("n=%d err=%v", r.N, r.Err)
	}
	return fmt.Sprintf("n=%d", r.N)
}

func guard(r *Res) {
	if p := recover(); p != nil {
		if hooks.IsAbort(p) || explore.IsHarnessPanic(p) {
			panic(p)
		}
		r.Panic = p
		_, r.Runtime = p.(runtime.Error)
		if s := fmt.Sprint(p); len(s) > 300 {
			r.Panic = s[:300]
		}
	}
}

func Size(v interface{}) (r Res) {
	defer guard(&r)
	r.N = frugal.EncodedSize(v)
	return
}

func Enc(buf []byte, v interface{}) (r Res) {
	defer guard(&r)
	r.N, r.Err = frugal.EncodeObject(buf, nil, v)
	return
}

func Dec(buf []byte, v interface{}) (r Res) {
	defer guard(&r)
	r.N, r.Err = frugal.DecodeObject(buf, v)
	return
}

const sentinel = 0xA5

// Window is a caller buffer embedded in a larger array with sentinel bytes
// before it, in its spare capacity and beyond its capacity.
type Window struct {
	arr              []byte
	pre, length, cap int
}

func NewWindow(length, spare int) *Window {
	w := &Window{pre: 32, length: length, cap: length + spare}
	w.arr = make([]byte, w.pre+w.cap+32)
	for i := range w.arr {
		w.arr[i] = sentinel
	}
	return w
}

func (w *Window) Buf() []byte { return w.arr[w.pre : w.pre+w.length : w.pre+w.cap] }

// Dirty returns the offset (relative to the buffer start) of the first byte
// outside buf[:keep] that changed, or ok.
func (w *Window) Dirty(keep int) (int, bool) {
	for i, b := range w.arr {
		if i >= w.pre && i < w.pre+keep {
			continue
		}
		if b != sentinel {
			return i - w.pre, true
		}
	}
	return 0, false
}

func hx(b []byte) string {
	if len(b) > 256 {
		return hex.EncodeToString(b[:256]) + fmt.Sprintf("…(%d bytes)", len(b))
	}
	return hex.EncodeToString(b)
}

func mkCase(prop, class string, s *ref.Struct, v *ref.Val, input []byte, detail interface{}) *harness.Case {
	c := &harness.Case{Property: prop, Class: class, Detail: detail}
	if s != nil {
		c.Type = s.String()
		c.GoType = universe.GoSource(s)
	}
	if v != nil {
		c.Value = v.Short()
	}
	if input != nil {
		c.Input = hx(input)
	}
	return c
}

func init() {
	harness.RaceBuild = hooks.RaceBuild
	harness.Invisible = hooks.Invisible
}
