// Package explore is engine E1: a stateless depth-first explorer over choice
// sequences with replay-by-prefix and deviation bounding.
//
// A harness body is an ordinary function that calls c.Choose(n, kind, label)
// whenever it needs a decision.  Run executes the body once per leaf of the
// choice tree: every alternative of every Data choice (full Cartesian product)
// and every combination of at most Bound non-default answers at Dev choices.
// Executions always run to completion; nothing is sampled.
package explore

import (
	"fmt"
	"strings"
	"time"
)

type ChoiceKind uint8

const (
	Data ChoiceKind = iota // enumerated completely, costs nothing
	Dev                    // answer 0 is the default; any other answer is a deviation and costs 1
)

type frame struct {
	n      int
	chosen int
	kind   ChoiceKind
	label  string
}

// C is handed to the harness body for one execution.
type C struct {
	e     *Explorer
	stack []frame
	pos   int
	cost  int
	// per-execution observations
	outcome string
	fail    *Failure
	Replay  bool // true when running a recorded choice sequence
	// divergedAt: position of the first recorded library-level point the execution did not repeat (-1: none)
	divergedAt int
}

type Failure struct {
	Msg     string
	Case    interface{} // human-readable, JSON-marshalable case descriptor
	Choices []int
	Labels  []string
	Cost    int
}

// Choose returns a decision in [0,n).  (norace: in scheduled runs it is called
// from whichever thread is running; the scheduler guarantees exclusivity but
// deliberately hides its hand-offs from the race detector.)  n must be the same whenever the same
// prefix of decisions is replayed; a mismatch is a hard harness error.
//
//go:norace
func (c *C) Choose(n int, kind ChoiceKind, label string) int {
	if n <= 0 {
		panic(HarnessPanic(fmt.Sprintf("explore: Choose(%d) at %s", n, label)))
	}
	if c.pos < len(c.stack) {
		f := &c.stack[c.pos]
		if f.n == -1 { // replay frame: adopt what the body asks for
			if f.chosen < 0 || f.chosen >= n {
				panic(HarnessPanic(fmt.Sprintf("explore: recorded choice %d out of range [0,%d) at %s", f.chosen, n, label)))
			}
			f.n, f.kind, f.label = n, kind, label
		}
		if f.n != n || f.kind != kind {
			if libraryPoint(f.label) && libraryPoint(label) && !c.Replay {
				if c.divergedAt < 0 {
					c.divergedAt = c.pos
				}
				panic(HarnessPanic(divergedMark)) // the code under test took another path than recorded: see Run
			}
			panic(HarnessPanic(fmt.Sprintf("explore: nondeterministic harness: replaying choice %d (%s) expected n=%d kind=%d, got n=%d kind=%d (%s)",
				c.pos, f.label, f.n, f.kind, n, kind, label)))
		}
		c.pos++
		if kind == Dev && f.chosen != 0 {
			c.cost++
		}
		c.afterChoice()
		return f.chosen
	}
	first := 0
	if c.pos == 0 && c.e.NShards > 1 && !c.e.GateSharding {
		first = c.e.Shard
		if first >= n {
			// this shard has no work at the root: signal by aborting the execution
			panic(errNoWork)
		}
	}
	c.stack = append(c.stack, frame{n: n, chosen: first, kind: kind, label: label})
	c.pos++
	c.afterChoice()
	return first
}

const divergedMark = "explore: execution diverged from its recorded prefix at a library-level point"

// libraryPoint: scheduling and environment points are asked by the shimmed library code, all other
// choices by the harness itself (whose nondeterminism stays a hard error).
func libraryPoint(label string) bool {
	return strings.HasPrefix(label, "sched:") || strings.HasPrefix(label, "env:")
}

// Gate is the sharding point of gate-sharded explorations: the body calls it
// once, after its leading data choices and before any expensive work.  The
// execution continues only in the worker that owns the choice prefix (by
// hash); in the others it is abandoned without being counted.
//
//go:norace
func (c *C) Gate() {
	if !c.e.GateSharding || c.e.NShards <= 1 || c.Replay {
		return
	}
	var h uint32 = 2166136261
	for i := 0; i < c.pos; i++ {
		h = (h ^ uint32(c.stack[i].chosen)) * 16777619
		h = (h ^ uint32(c.stack[i].n)) * 16777619
	}
	if int(h%uint32(c.e.NShards)) != c.e.Shard {
		panic(errSkip)
	}
}

// afterChoice: fine-grained breadcrumbs and the step-over list of fatal cases.
//
//go:norace
func (c *C) afterChoice() {
	e := c.e
	if e.OnChoice == nil && len(e.SkipSeqs) == 0 {
		return
	}
	ch := make([]int, c.pos)
	for i := 0; i < c.pos; i++ {
		ch[i] = c.stack[i].chosen
	}
	if len(e.SkipSeqs) > 0 && c.pos == len(c.stack) && e.SkipSeqs[fmt.Sprint(ch)] {
		panic(errSkip)
	}
	if e.OnChoice != nil {
		e.OnChoice(ch)
	}
}

// SkipExecution abandons the running execution without counting it (used to
// step over a case known to kill the worker process).
func SkipExecution() { panic(errSkip) }

// Bool is Choose(2) as a bool.
func (c *C) Bool(kind ChoiceKind, label string) bool { return c.Choose(2, kind, label) == 1 }

// Outcome records a digest of what this execution observed (for the
// distinct-outcomes statistic that guards against vacuous exploration).
func (c *C) Outcome(s string) { c.outcome = s }

// Fail records a property violation for this execution (first one wins).
func (c *C) Fail(msg string, cas interface{}) {
	if c.fail == nil {
		c.fail = &Failure{Msg: msg, Case: cas}
	}
}

func (c *C) Failed() bool { return c.fail != nil }

// Choices returns the decisions taken so far.
func (c *C) Choices() []int {
	r := make([]int, c.pos)
	for i := 0; i < c.pos; i++ {
		r[i] = c.stack[i].chosen
	}
	return r
}

var errNoWork = fmt.Errorf("no work for shard")
var errSkip = fmt.Errorf("execution belongs to another shard")

// HarnessPanic is the type of every panic the explorer raises about the harness
// itself (nondeterminism, bad replay files); code that recovers panics of the
// system under test must re-panic these (see IsHarnessPanic).
type HarnessPanic string

// IsHarnessPanic reports whether a recovered value belongs to the explorer.
func IsHarnessPanic(p interface{}) bool {
	if _, ok := p.(HarnessPanic); ok {
		return true
	}
	return p == errNoWork || p == errSkip
}

type Stats struct {
	Executions int64
	Nodes      int64 // choice-tree nodes created (= distinct choice prefixes visited)
	Choices    int64 // choices taken over all executions (transitions)
	MaxDepth   int
	MaxCost    int
	Outcomes   map[string]int64
	Failures   []*Failure
	CapHit     string // non-empty when the enumeration was cut short
	Elapsed    time.Duration
	// Diverged counts subtrees abandoned because the code under test did not repeat the recorded
	// scheduling / environment points when a choice prefix was replayed (e.g. it iterates a Go map)
	Diverged int64
}

type Explorer struct {
	Bound        int // max deviations per execution
	Shard        int
	NShards      int
	GateSharding bool                // shard at C.Gate() by hash of the choice prefix instead of striding the first choice
	OnChoice     func(choices []int) // called after every decision (fine-grained breadcrumbs)
	SkipSeqs     map[string]bool     // fmt.Sprint(choices) of cases to step over (they killed an earlier worker)
	Deadline     time.Time           // zero = none
	MaxFailures  int                 // stop after this many failures (0 = 50)
	Stats        Stats
}

// Run enumerates the whole choice tree of body.
func (e *Explorer) Run(body func(c *C)) {
	start := time.Now()
	if e.MaxFailures == 0 {
		e.MaxFailures = 50
	}
	if e.NShards == 0 {
		e.NShards = 1
	}
	if e.Stats.Outcomes == nil {
		e.Stats.Outcomes = map[string]int64{}
	}
	c := &C{e: e}
	retries := 0
	for {
		c.pos, c.cost, c.outcome, c.fail, c.divergedAt = 0, 0, "", nil, -1
		before := len(c.stack)
		nowork, skipped, diverged := e.exec(c, body)
		if nowork {
			break
		}
		if !diverged && !skipped && c.pos < len(c.stack) && libraryPoint(c.stack[c.pos].label) {
			diverged = true // ended before consuming the recorded library-level points
			c.divergedAt = c.pos
		}
		if diverged {
			// The code under test is not a deterministic function of the choices (it may iterate a Go
			// map, whose order the runtime randomises).  Try the same prefix again a few times; if the
			// recorded shape does not come back, give up the subtree below the point of divergence -
			// counted, reported as a cap, never as a violation.
			if retries < 3 {
				retries++
				c.stack = c.stack[:before]
				continue
			}
			retries = 0
			e.Stats.Diverged++
			if c.divergedAt < 0 || c.divergedAt > before {
				c.divergedAt = before
			}
			c.stack = c.stack[:c.divergedAt]
			if !e.advance(c) {
				break
			}
			continue
		}
		retries = 0
		if skipped {
			c.stack = c.stack[:c.pos] // only the choices made before the gate exist
			if !e.advance(c) {
				break
			}
			continue
		}
		if c.pos < len(c.stack) {
			var tr []string
			for _, f := range c.stack {
				tr = append(tr, fmt.Sprintf("%s=%d/%d", f.label, f.chosen, f.n))
			}
			panic(HarnessPanic(fmt.Sprintf("explore: nondeterministic harness: execution ended after %d choices, %d were recorded; recorded choices: %v", c.pos, len(c.stack), tr)))
		}
		e.Stats.Executions++
		e.Stats.Nodes += int64(len(c.stack) - before)
		e.Stats.Choices += int64(len(c.stack))
		if len(c.stack) > e.Stats.MaxDepth {
			e.Stats.MaxDepth = len(c.stack)
		}
		if c.cost > e.Stats.MaxCost {
			e.Stats.MaxCost = c.cost
		}
		if c.outcome != "" {
			e.Stats.Outcomes[c.outcome]++
		}
		if c.fail != nil {
			c.fail.Choices = c.Choices()
			for _, f := range c.stack {
				c.fail.Labels = append(c.fail.Labels, f.label)
			}
			c.fail.Cost = c.cost
			e.Stats.Failures = append(e.Stats.Failures, c.fail)
			if len(e.Stats.Failures) >= e.MaxFailures {
				e.Stats.CapHit = fmt.Sprintf("stopped after %d failures", e.MaxFailures)
				break
			}
		}
		if !e.Deadline.IsZero() && e.Stats.Executions%64 == 0 && time.Now().After(e.Deadline) {
			e.Stats.CapHit = "internal deadline reached"
			break
		}
		if !e.advance(c) {
			break
		}
	}
	e.Stats.Elapsed += time.Since(start)
}

func (e *Explorer) exec(c *C, body func(c *C)) (nowork, skipped, diverged bool) {
	defer func() {
		if r := recover(); r != nil {
			if r == errNoWork {
				nowork = true
				return
			}
			if r == errSkip {
				skipped = true
				return
			}
			if hp, ok := r.(HarnessPanic); ok && string(hp) == divergedMark {
				diverged = true
				return
			}
			panic(r)
		}
	}()
	body(c)
	return false, false, false
}

// advance moves to the next leaf in depth-first order; false when done.
func (e *Explorer) advance(c *C) bool {
	for len(c.stack) > 0 {
		i := len(c.stack) - 1
		f := &c.stack[i]
		step := 1
		if i == 0 && e.NShards > 1 && !e.GateSharding {
			step = e.NShards
		}
		if f.chosen+step < f.n {
			ok := true
			if f.kind == Dev && f.chosen == 0 {
				// taking a non-default answer here costs one deviation
				cost := 0
				for _, g := range c.stack[:i] {
					if g.kind == Dev && g.chosen != 0 {
						cost++
					}
				}
				ok = cost+1 <= e.Bound
			}
			if ok {
				f.chosen += step
				c.stack = c.stack[:i+1] // decisions after the changed one belong to the previous execution
				return true
			}
		}
		c.stack = c.stack[:i]
	}
	return false
}

// ReplayOnce runs body once along the recorded choices (no exploration) and
// returns the failure, if any, and the outcome digest.  An out-of-range
// recorded choice or a body that asks for more choices than recorded is a hard
// error; decisions after the recorded ones take the default answer 0.
func ReplayOnce(choices []int, body func(c *C)) (fail *Failure, outcome string) {
	c := &C{e: &Explorer{NShards: 1}, Replay: true}
	for _, ch := range choices {
		c.stack = append(c.stack, frame{n: -1, chosen: ch})
	}
	recorded := len(c.stack)
	body(c)
	if c.pos < recorded {
		panic(HarnessPanic(fmt.Sprintf("explore: replay used %d of %d recorded choices", c.pos, recorded)))
	}
	if c.fail != nil {
		c.fail.Choices = c.Choices()
		for _, f := range c.stack {
			c.fail.Labels = append(c.fail.Labels, f.label)
		}
		c.fail.Cost = c.cost
	}
	return c.fail, c.outcome
}
