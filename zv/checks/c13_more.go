package checks

import (
	"bytes"
	"fmt"
	"reflect"

	"github.com/cloudwego/frugal/zverif/explore"
	"github.com/cloudwego/frugal/zverif/harness"
	"github.com/cloudwego/frugal/zverif/hooks"
	"github.com/cloudwego/frugal/zverif/ref"
	"github.com/cloudwego/frugal/zverif/universe"
)

// ---- siblings: valid types that share a definition with an invalid one ----
//
// "does not affect other types": a valid struct that is nested (by value, by pointer, in a list, as a
// map value) in the same outer definition as an invalid one, before or after it, must behave exactly as
// in a process that never saw the invalid definition - when used at top level after the rejection and
// when it had been used before.

var (
	rtSibIn = reflect.StructOf([]reflect.StructField{sfield(0, reflect.TypeOf(int64(0)), `frugal:"1,default,i64"`)})
	rtSib   = reflect.StructOf([]reflect.StructField{
		sfield(0, rtI32, `frugal:"1,default,i32"`),
		sfield(1, rtStr, `frugal:"2,optional,string"`),
		sfield(2, reflect.PtrTo(rtSibIn), `frugal:"3,optional,In"`),
		sfield(3, rtSibIn, `frugal:"4,default,In"`),
	})
	c13SibForms = []string{"value", "pointer", "list-of-pointers", "list-of-values", "map-value", "map-key"}
	c13BadForms = []string{"field*", "field", "list*", "mapval*"}
)

func c13SibField(i int, id int, form string) reflect.StructField {
	switch form {
	case "value":
		return sfield(i, rtSib, fmt.Sprintf(`frugal:"%d,default,Sib"`, id))
	case "pointer":
		return sfield(i, reflect.PtrTo(rtSib), fmt.Sprintf(`frugal:"%d,optional,Sib"`, id))
	case "list-of-pointers":
		return sfield(i, reflect.SliceOf(reflect.PtrTo(rtSib)), fmt.Sprintf(`frugal:"%d,default,list<Sib>"`, id))
	case "list-of-values":
		return sfield(i, reflect.SliceOf(rtSib), fmt.Sprintf(`frugal:"%d,default,list<Sib>"`, id))
	case "map-value":
		return sfield(i, reflect.MapOf(rtI32, reflect.PtrTo(rtSib)), fmt.Sprintf(`frugal:"%d,default,map<i32:Sib>"`, id))
	case "map-key":
		return sfield(i, reflect.MapOf(reflect.PtrTo(rtSib), rtI32), fmt.Sprintf(`frugal:"%d,default,map<Sib:i32>"`, id))
	}
	panic(form)
}

func c13BadField(i int, id int, bad reflect.Type, form string) reflect.StructField {
	switch form {
	case "field*":
		return sfield(i, reflect.PtrTo(bad), fmt.Sprintf(`frugal:"%d,optional,S"`, id))
	case "field":
		return sfield(i, bad, fmt.Sprintf(`frugal:"%d,default,S"`, id))
	case "list*":
		return sfield(i, reflect.SliceOf(reflect.PtrTo(bad)), fmt.Sprintf(`frugal:"%d,default,list<S>"`, id))
	case "mapval*":
		return sfield(i, reflect.MapOf(rtStr, reflect.PtrTo(bad)), fmt.Sprintf(`frugal:"%d,default,map<string:S>"`, id))
	}
	panic(form)
}

// c13SibUse runs the three entry points on the sibling type and renders everything observable.
func c13SibUse() string {
	v := reflect.New(rtSib)
	v.Elem().Field(0).SetInt(42)
	v.Elem().Field(1).SetString("hello")
	in := reflect.New(rtSibIn)
	in.Elem().Field(0).SetInt(-3)
	v.Elem().Field(2).Set(in)
	v.Elem().Field(3).Field(0).SetInt(77)
	sz := Size(v.Interface())
	buf := make([]byte, 96)
	en := Enc(buf, v.Interface())
	out := ""
	if en.Err == nil && en.Panic == nil {
		dst := reflect.New(rtSib)
		de := Dec(append([]byte{}, buf[:en.N]...), dst.Interface())
		e := dst.Elem()
		out = fmt.Sprintf("%v {%d %q in=nil %+v}", de, e.Field(0).Int(), e.Field(1).String(), e.Field(3).Interface())
		if p := e.Field(2); !p.IsNil() {
			out = fmt.Sprintf("%v {%d %q in=%+v %+v}", de, e.Field(0).Int(), e.Field(1).String(), p.Elem().Interface(), e.Field(3).Interface())
		}
		return fmt.Sprintf("size=%v enc=%v %x dec=%s", sz, en, buf[:en.N], out)
	}
	return fmt.Sprintf("size=%v enc=%v", sz, en)
}

// c13OuterUse encodes (size + bytes) a value of the valid outer type whose sibling field is populated.
func c13OuterUse(gouter reflect.Type, form string) string {
	sib := reflect.New(rtSib)
	sib.Elem().Field(0).SetInt(42)
	sib.Elem().Field(1).SetString("hello")
	in := reflect.New(rtSibIn)
	in.Elem().Field(0).SetInt(-3)
	sib.Elem().Field(2).Set(in)
	v := reflect.New(gouter)
	f := v.Elem().Field(1)
	switch form {
	case "value":
		f.Set(sib.Elem())
	case "pointer":
		f.Set(sib)
	case "list-of-pointers":
		f.Set(reflect.Append(reflect.MakeSlice(f.Type(), 0, 1), sib))
	case "list-of-values":
		f.Set(reflect.Append(reflect.MakeSlice(f.Type(), 0, 1), sib.Elem()))
	case "map-value":
		m := reflect.MakeMap(f.Type())
		m.SetMapIndex(reflect.ValueOf(int32(1)), sib)
		f.Set(m)
	case "map-key":
		m := reflect.MakeMap(f.Type())
		m.SetMapIndex(sib, reflect.ValueOf(int32(1)))
		f.Set(m)
	}
	sz := Size(v.Interface())
	buf := make([]byte, 128)
	en := Enc(buf, v.Interface())
	out := fmt.Sprintf("size=%v enc=%v %x", sz, en, buf[:en.N])
	if en.Err == nil && en.Panic == nil {
		dst := reflect.New(gouter)
		de := Dec(append([]byte{}, buf[:en.N]...), dst.Interface())
		b2 := make([]byte, 128)
		e2 := Enc(b2, dst.Interface())
		out += fmt.Sprintf(" dec=%v reenc=%x", de, b2[:e2.N])
	}
	return out
}

// c13SibDefs picks the invalid definitions used in the sibling phase: one per distinct rejection site.
func c13SibDefs(tier universe.Tier) []badDef {
	all := badDefs()
	if tier != universe.Quick {
		return all
	}
	seen := map[string]bool{}
	var out []badDef
	for _, d := range all {
		k := d.class
		if i := bytes.IndexByte([]byte(k), ':'); i > 0 {
			k = k[:i]
		}
		if !seen[k] {
			seen[k] = true
			out = append(out, d)
		}
	}
	return out
}

func c13Siblings(c *explore.C, tier universe.Tier) {
	defs := c13SibDefs(tier)
	di := c.Choose(len(defs), explore.Data, "definition")
	sform := c13SibForms[c.Choose(len(c13SibForms), explore.Data, "sibling-form")]
	bform := c13BadForms[c.Choose(len(c13BadForms), explore.Data, "invalid-form")]
	sibFirst := c.Bool(explore.Data, "sibling-declared-first")
	sibLowID := c.Bool(explore.Data, "sibling-has-lower-id")
	entry := c.Choose(3, explore.Data, "entry")
	usedBefore := c.Bool(explore.Data, "sibling-used-before")
	harness.Cur.Crumb(c.Choices())
	def := defs[di]
	bad := reflect.StructOf(def.fields)
	sid, bid := 2, 3
	if !sibLowID {
		sid, bid = 3, 2
	}
	fs := []reflect.StructField{sfield(0, rtI32, `frugal:"1,default,i32"`)}
	if sibFirst {
		fs = append(fs, c13SibField(1, sid, sform), c13BadField(2, bid, bad, bform))
	} else {
		fs = append(fs, c13BadField(1, bid, bad, bform), c13SibField(2, sid, sform))
	}
	outer := reflect.StructOf(fs)
	desc := fmt.Sprintf("%s as %s, sibling as %s (declared first=%v, lower id=%v)", def.class, bform, sform, sibFirst, sibLowID)
	cs := func(class, m string) *harness.Case {
		return &harness.Case{Property: "C13", Class: class, Type: desc, GoType: outer.String(), Detail: m}
	}
	// a valid outer type holding the sibling the same way (it shares the field's type record with the invalid one)
	gouter := reflect.StructOf([]reflect.StructField{sfield(0, rtI32, `frugal:"1,default,i32"`), c13SibField(1, 2, sform)})
	hooks.Reset()
	wantOuter := c13OuterUse(gouter, sform)
	// what the sibling does in a process that never saw the invalid definition
	hooks.Reset()
	want := c13SibUse()
	if want2 := c13SibUse(); want2 != want {
		panic("harness error: sibling use not deterministic: " + want + " / " + want2)
	}
	hooks.Reset()
	if usedBefore {
		if got := c13SibUse(); got != want {
			panic("harness error: sibling use differs after reset: " + got)
		}
		if got := c13OuterUse(gouter, sform); got != wantOuter {
			panic("harness error: valid outer type behaves differently after reset: " + got)
		}
	}
	for round := 0; round < 2; round++ {
		o := c13Call(entry, outer)
		if !o.rejected {
			c.Fail(fmt.Sprintf("%s: %s [%s, call %d]", c13Entry[entry], o.msg, desc, round+1), cs(o.class, o.msg))
			return
		}
		if got := c13SibUse(); got != want {
			c.Fail(fmt.Sprintf("a valid type nested next to a rejected definition is affected: after %s rejected the outer type (call %d) the valid type gives\n   %s\nwant %s [%s]", c13Entry[entry], round+1, got, want, desc), cs("valid-type-affected", got))
			return
		}
	}
	// the valid outer type holding the sibling the same way - registered before the rejection or only now -
	// works exactly as in a process that never saw the invalid definition, with the sibling field populated
	if got := c13OuterUse(gouter, sform); got != wantOuter {
		c.Fail(fmt.Sprintf("a valid type that shares a nested struct with a rejected definition is affected (registered before the rejection: %v): it gives\n   %s\nwant %s [%s]", usedBefore, got, wantOuter, desc), cs("valid-type-affected", got))
		return
	}
	harness.Cur.Evals(10)
	harness.Cur.Outcome(harness.Hash64([]byte(desc), []byte{byte(entry)}), def.class+"/"+sform)
	harness.Cur.Sample(func() interface{} { return map[string]interface{}{"case": desc, "sibling": want} })
}

// ---- id sweep: duplicate and distinct ids around every boundary of the id space ----

var c13IDs = func() []int {
	var ids []int
	add := func(v int) {
		if v < 0 || v > 65535 {
			return
		}
		for _, x := range ids {
			if x == v {
				return
			}
		}
		ids = append(ids, v)
	}
	add(0)
	for sh := 0; sh <= 16; sh++ {
		add(1<<sh - 1)
		add(1 << sh)
		add(1<<sh + 1)
	}
	for _, v := range []int{3, 5, 62, 66, 100, 126, 130, 254, 258, 1000, 4097, 32766, 65534} {
		add(v)
	}
	return ids
}()

var c13IDsThorough = func() []int {
	ids := append([]int{}, c13IDs...)
	have := map[int]bool{}
	for _, v := range ids {
		have[v] = true
	}
	for v := 0; v <= 200; v++ {
		if !have[v] {
			ids = append(ids, v)
		}
	}
	return ids
}()

func c13IDSweep(c *explore.C, tier universe.Tier) {
	ids := c13IDs
	if tier == universe.Thorough {
		ids = c13IDsThorough
	}
	ai := c.Choose(len(ids), explore.Data, "first-id")
	bi := c.Choose(len(ids), explore.Data, "second-id")
	layout := c.Choose(4, explore.Data, "layout") // 0: adjacent first, 1: adjacent last, 2: far apart, 3: reversed declaration
	nested := c.Bool(explore.Data, "nested")
	harness.Cur.Crumb(c.Choices())
	hooks.Reset()
	a, b := ids[ai], ids[bi]
	// filler ids distinct from a and b
	var fill []int
	for v := 7; len(fill) < 3; v += 11 {
		if v != a && v != b {
			fill = append(fill, v)
		}
	}
	tg := func(id int, ann string) string { return fmt.Sprintf(`frugal:"%d,default,%s"`, id, ann) }
	rtI64 := reflect.TypeOf(int64(0))
	var fs []reflect.StructField
	switch layout {
	case 0:
		fs = []reflect.StructField{sfield(0, rtStr, tg(a, "string")), sfield(1, rtI64, tg(b, "i64")), sfield(2, rtI32, tg(fill[0], "i32")), sfield(3, rtI32, tg(fill[1], "i32"))}
	case 1:
		fs = []reflect.StructField{sfield(0, rtI32, tg(fill[0], "i32")), sfield(1, rtI32, tg(fill[1], "i32")), sfield(2, rtStr, tg(a, "string")), sfield(3, rtI64, tg(b, "i64"))}
	case 2:
		fs = []reflect.StructField{sfield(0, rtStr, tg(a, "string")), sfield(1, rtI32, tg(fill[0], "i32")), sfield(2, rtI32, tg(fill[1], "i32")), sfield(3, rtI32, tg(fill[2], "i32")), sfield(4, rtI64, tg(b, "i64"))}
	case 3:
		fs = []reflect.StructField{sfield(0, rtI64, tg(b, "i64")), sfield(1, rtI32, tg(fill[0], "i32")), sfield(2, rtStr, tg(a, "string"))}
	}
	inner := reflect.StructOf(fs)
	rt := inner
	if nested {
		rt = reflect.StructOf([]reflect.StructField{sfield(0, rtI32, `frugal:"1,default,i32"`), sfield(1, reflect.PtrTo(inner), `frugal:"2,optional,S"`)})
	}
	desc := fmt.Sprintf("ids %d and %d, layout %d, nested=%v", a, b, layout, nested)
	cs := func(class, m string) *harness.Case {
		return &harness.Case{Property: "C13", Class: class, Type: desc, GoType: rt.String(), Detail: m}
	}
	_, refErr := ref.ParseTags(inner)
	if (refErr != nil) != (a == b) {
		panic(fmt.Sprintf("harness error: reference tag parser disagrees on %s: %v", desc, refErr))
	}
	if a == b {
		for round := 0; round < 2; round++ {
			for e := 0; e < 3; e++ {
				if o := c13Call(e, rt); !o.rejected {
					c.Fail(fmt.Sprintf("%s: %s [duplicate id: %s, call %d]", c13Entry[e], o.msg, desc, round+1), cs(o.class, o.msg))
					return
				}
			}
		}
		harness.Cur.Outcome(harness.Hash64([]byte(desc)), "duplicate-rejected")
		return
	}
	// distinct ids: the definition is valid and both fields travel under their own id
	v := reflect.New(rt)
	tgt := v.Elem()
	if nested {
		p := reflect.New(inner)
		tgt.Field(1).Set(p)
		tgt = p.Elem()
	}
	for i := 0; i < inner.NumField(); i++ {
		switch inner.Field(i).Type {
		case rtStr:
			tgt.Field(i).SetString("s")
		case rtI64:
			tgt.Field(i).SetInt(64)
		default:
			tgt.Field(i).SetInt(int64(100 + i))
		}
	}
	sz := Size(v.Interface())
	buf := make([]byte, 128)
	en := Enc(buf, v.Interface())
	if sz.Panic != nil || en.Panic != nil || en.Err != nil || sz.N != en.N {
		c.Fail(fmt.Sprintf("a definition with distinct ids is not handled: size=%v enc=%v [%s]", sz, en, desc), cs("valid-rejected", en.String()))
		return
	}
	node, _, err := ref.ParseStruct(buf[:en.N])
	if err != nil {
		c.Fail(fmt.Sprintf("output does not parse: %v %x [%s]", err, buf[:en.N], desc), cs("bad-output", ""))
		return
	}
	fields := node.Fields
	if nested {
		var body []ref.WField
		for _, f := range fields {
			if f.ID == 2 {
				body = f.V.Fields
			}
		}
		fields = body
	}
	var gotA, gotB bool
	for _, f := range fields {
		if int(f.ID) == a && f.T == ref.WString && string(f.V.Raw) == "s" {
			gotA = true
		}
		if int(f.ID) == b && f.T == ref.WI64 && bytes.Equal(f.V.Raw, []byte{0, 0, 0, 0, 0, 0, 0, 64}) {
			gotB = true
		}
	}
	if !gotA || !gotB || len(fields) != inner.NumField() {
		c.Fail(fmt.Sprintf("fields with ids %d and %d are not both written under their own id: %x [%s]", a, b, buf[:en.N], desc), cs("wrong-field-ids", fmt.Sprintf("%x", buf[:en.N])))
		return
	}
	dst := reflect.New(rt)
	de := Dec(append([]byte{}, buf[:en.N]...), dst.Interface())
	if de.Panic != nil || de.Err != nil || !reflect.DeepEqual(dst.Interface(), v.Interface()) {
		c.Fail(fmt.Sprintf("round trip of a definition with distinct ids fails: %v [%s]", de, desc), cs("valid-rejected", de.String()))
		return
	}
	harness.Cur.Evals(4)
	harness.Cur.Outcome(harness.Hash64([]byte(desc)), "distinct-accepted")
}
