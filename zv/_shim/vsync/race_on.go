//go:build race

package vsync

import (
	"runtime"
	"unsafe"
)

// The shim primitives declare to the race detector exactly the happens-before
// edges the real primitives create: unlock -> next lock, Pool.Put -> the Get
// that returns that object, Once completion -> later Do, WaitGroup/Cond
// signalling -> waiter.

type eface struct {
	typ  unsafe.Pointer
	data unsafe.Pointer
}

//go:norace
func addr(p any) unsafe.Pointer { return (*eface)(unsafe.Pointer(&p)).data }

//go:norace
func raceAcquire(p any) { runtime.RaceAcquire(addr(p)) }

//go:norace
func raceRelease(p any) { runtime.RaceRelease(addr(p)) }

//go:norace
func raceReleaseMerge(p any) { runtime.RaceReleaseMerge(addr(p)) }

// one synchronisation address per pooled object: the slot of the item in the pool's slice
// is unstable, so the address of the item's own sync cell is used.

//go:norace
func raceAcquireItem(p *Pool, i int) { runtime.RaceAcquire(unsafe.Pointer(p.items[i].cell)) }

//go:norace
func raceReleaseItem(p *Pool, i int) {}
