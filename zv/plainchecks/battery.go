// Package plainchecks holds the checks that run against the unmodified build.
package plainchecks

import (
	"crypto/sha256"
	"encoding/hex"
	"fmt"
	"reflect"
	"runtime"

	"github.com/cloudwego/frugal"
	"github.com/cloudwego/frugal/zverif/ref"
	"github.com/cloudwego/frugal/zverif/universe"
)

// batteryTypes: a fixed sample of the type space of C01-C04 (every 23rd single-field
// type of T3 in its first shell, boundary ids, two-field shapes, unknown holder).
func batteryTypes() []*ref.Struct {
	var out []*ref.Struct
	for i, t := range universe.T(3) {
		if i%23 == 0 || i < 15 {
			out = append(out, universe.One(t, universe.Shells(t)[i%len(universe.Shells(t))], uint16(1+i%70)))
		}
	}
	sc := universe.Sc
	u := &ref.Struct{Unknown: true, Fields: []*ref.Field{{ID: 3, Req: ref.ReqDefault, Type: sc(ref.KI32)}, {ID: 300, Req: ref.ReqOptional, Type: universe.MapOf(sc(ref.KString), universe.StPtr(universe.Leaf()))}}}
	r := &ref.Struct{Fields: []*ref.Field{{ID: 63, Req: ref.ReqRequired, Type: sc(ref.KString)}, {ID: 64, Req: ref.ReqRequired, Type: universe.ListOf(sc(ref.KDouble))}, {ID: 65535, Req: ref.ReqOptional, Type: &ref.Type{Kind: ref.KI64, Ptr: true}}}}
	return append(out, u, r)
}

type callRes struct {
	n   int
	err error
	pan interface{}
}

func guard(r *callRes) {
	if p := recover(); p != nil {
		r.pan = p
	}
}

func size(v interface{}) (r callRes) {
	defer guard(&r)
	r.n = frugal.EncodedSize(v)
	return
}

func enc(b []byte, v interface{}) (r callRes) {
	defer guard(&r)
	r.n, r.err = frugal.EncodeObject(b, nil, v)
	return
}

func dec(b []byte, v interface{}) (r callRes) {
	defer guard(&r)
	r.n, r.err = frugal.DecodeObject(b, v)
	return
}

// Battery runs the codec battery and returns a digest of every size, every
// encoding (canonical form) and every decoded value, plus a description of the
// first disagreement with the reference model ("" if none).  between is invoked
// after half of the types have been processed.
func Battery(between func()) (digest string, disagreement string) {
	h := sha256.New()
	types := batteryTypes()
	for ti, s := range types {
		if ti == len(types)/2 && between != nil {
			between()
		}
		vals := universe.StructValues(s, universe.Quick, 40)
		for vi, v := range vals {
			if vi%3 != 0 && vi > 4 {
				continue
			}
			src := universe.New(s, v)
			want := ref.Encode(s, v)
			sz := size(src.Interface())
			buf := make([]byte, len(want)+8)
			e := enc(buf, src.Interface())
			if sz.pan != nil || e.pan != nil || e.err != nil {
				return "", fmt.Sprintf("type %s value %s: size %v encode %v", s, v.Short(), sz, e)
			}
			cn, err := ref.Canonical(buf[:e.n])
			wc, _ := ref.Canonical(want)
			if err != nil || string(cn) != string(wc) || sz.n != len(want) {
				disagreement = fmt.Sprintf("type %s value %s: size %d, bytes %x; reference %d bytes %x", s, v.Short(), sz.n, buf[:e.n], len(want), want)
			}
			dst := universe.New(s, nil)
			d := dec(want, dst.Interface())
			exp := ref.Decode(s, want, nil, ref.DecOpts{})
			got := ""
			if d.pan == nil && d.err == nil {
				got = universe.ReadStruct(s, dst.Elem()).Canon()
			}
			if d.pan != nil || d.err != nil || d.n != exp.N || got != exp.V.Canon() {
				disagreement = fmt.Sprintf("type %s value %s: decode %v differs from the reference", s, v.Short(), d)
			}
			fmt.Fprintf(h, "%d|%d|%x|%d|%s\n", ti, sz.n, cn, d.n, got)
		}
	}
	// values only a decoder can produce: bools whose byte is neither 0 nor 1, decoded and re-encoded
	// (not compared with the reference - no property pins them - only required to be configuration independent)
	{
		sc := universe.Sc
		ob := &ref.Struct{Fields: []*ref.Field{{ID: 1, Req: ref.ReqDefault, Type: sc(ref.KBool)}, {ID: 2, Req: ref.ReqDefault, Type: universe.MapOf(sc(ref.KBool), sc(ref.KBool))},
			{ID: 3, Req: ref.ReqDefault, Type: universe.ListOf(sc(ref.KBool))}, {ID: 4, Req: ref.ReqDefault, Type: universe.MapOf(sc(ref.KI32), sc(ref.KBool))}, {ID: 5, Req: ref.ReqDefault, Type: universe.MapOf(sc(ref.KBool), sc(ref.KString))}}}
		msg := []byte{2, 0, 1, 0xff, 13, 0, 2, 2, 2, 0, 0, 0, 1, 0x02, 0xff, 15, 0, 3, 2, 0, 0, 0, 2, 0x80, 0x01, 13, 0, 4, 8, 2, 0, 0, 0, 1, 0, 0, 0, 7, 0x7f, 13, 0, 5, 2, 11, 0, 0, 0, 1, 0xff, 0, 0, 0, 1, 'x', 0}
		dst := universe.New(ob, nil)
		d := dec(msg, dst.Interface())
		b := make([]byte, 128)
		e := enc(b, dst.Interface())
		fmt.Fprintf(h, "oddbool|%v|%v|%d|%x\n", d.err != nil, d.pan != nil, size(dst.Interface()).n, b[:e.n])
	}
	// mutually nested static types, valid and invalid, and a wrapper around each: accepted or
	// rejected exactly as in a process that never called a legacy control
	for pi, p := range universe.GraphPairs {
		if pi%2 == 1 {
			continue
		}
		for _, rt := range []reflect.Type{p.B, p.A, reflect.StructOf([]reflect.StructField{{Name: "W", Type: reflect.PtrTo(p.B), Tag: `frugal:"1,optional,S"`}})} {
			b := make([]byte, 64)
			e := enc(b, reflect.New(rt).Interface())
			fmt.Fprintf(h, "G%d|%v|%v|%x\n", pi, e.err != nil, e.pan != nil, b[:e.n])
		}
	}
	// a chain of six distinct static struct types, with a value reaching the last level
	{
		src := universe.DeepValue()
		sz := size(src)
		b := make([]byte, 256)
		e := enc(b, src)
		var back universe.Deep1
		var d callRes
		if e.err == nil && e.pan == nil {
			d = dec(append([]byte{}, b[:e.n]...), &back)
		}
		if sz.pan != nil || e.pan != nil || e.err != nil || d.pan != nil || d.err != nil || sz.n != e.n || d.n != e.n || !reflect.DeepEqual(&back, src) {
			disagreement = fmt.Sprintf("deep chain: size %v encode %v decode %v, round trip equal=%v", sz, e, d, reflect.DeepEqual(&back, src))
		}
		fmt.Fprintf(h, "deep|%d|%x|%d\n", sz.n, b[:e.n], d.n)
	}
	runtime.KeepAlive(types)
	return hex.EncodeToString(h.Sum(nil)[:16]), disagreement
}
