package checks

import (
	"bytes"
	"fmt"
	"reflect"

	"github.com/cloudwego/frugal/zverif/explore"
	"github.com/cloudwego/frugal/zverif/harness"
	"github.com/cloudwego/frugal/zverif/hooks"
	"github.com/cloudwego/frugal/zverif/ref"
	"github.com/cloudwego/frugal/zverif/universe"
)

// Phase "aliased-defaults": the field value is a sub-string / sub-slice of the declared default and
// SHARES ITS MEMORY (what strings.TrimSuffix, s[:i] or b[:0] give an application that starts from
// the default-initialised struct).  Equality with the default is by content, never by address.

func init() {
	ck := harness.Lookup("C10")
	old := ck.Phases
	ck.Phases = func(tier universe.Tier) []*harness.Phase {
		return append(old(tier), &harness.Phase{
			Name: "aliased-defaults",
			Rule: "optional string / binary / *string field x 3 declared defaults x 6 cuts of the default sharing its memory (empty prefix, 1-byte prefix, all but the last byte, the whole, suffix, middle) x 5 positions; omission by the reference rule on CONTENT, size, round trip",
			Body: c10Alias,
		})
	}
}

func c10Alias(c *explore.C) {
	field := []string{"S", "Bin", "PS"}[c.Choose(3, explore.Data, "field")]
	dflt := []string{"v1-beta", "ab", "x"}[c.Choose(3, explore.Data, "declared-default")]
	cut := c.Choose(6, explore.Data, "cut")
	pos := []string{"top", "P", "V", "LP", "LV"}[c.Choose(5, explore.Data, "position")]
	harness.Cur.Crumb(c.Choices())
	universe.DfltTable = universe.Dflt{}
	proto := universe.DfltSpec()
	table := c10BaseTable(proto)
	for i, f := range proto.Fields {
		if f.Name == field {
			if field == "Bin" {
				table.F[i] = ref.Bin([]byte(dflt))
			} else {
				table.F[i] = ref.Str(dflt)
			}
		}
	}
	universe.SetDfltTable(proto, table)
	hooks.Reset()
	spec := universe.DfltSpec()
	outer := universe.DfltOuterSpec(spec)
	n := len(dflt)
	var a, b int
	switch cut {
	case 0:
		a, b = 0, 0
	case 1:
		a, b = 0, 1
	case 2:
		a, b = 0, n-1
	case 3:
		a, b = 0, n
	case 4:
		a, b = n-1, n
	case 5:
		a, b = n/2, n/2
	}
	var d universe.Dflt
	d.InitDefault() // shares string data with the table, as every default-initialised value does
	switch field {
	case "S":
		d.S = d.S[a:b]
	case "Bin":
		d.Bin = universe.DfltTable.Bin[a:b:b]
	case "PS":
		x := (*universe.DfltTable.PS)[a:b]
		d.PS = &x
	}
	d.Req = 5
	var src interface{}
	var S *ref.Struct
	o := &universe.DfltOuter{X: 1}
	o.V.InitDefault()
	switch pos {
	case "top":
		src, S = &d, spec
	case "P":
		o.P = &d
	case "V":
		o.V = d
	case "LP":
		e := universe.Dflt{}
		e.InitDefault()
		o.LP = []*universe.Dflt{&d, &e}
	case "LV":
		e := universe.Dflt{}
		e.InitDefault()
		o.LV = []universe.Dflt{d, e}
	}
	if pos != "top" {
		src, S = o, outer
	}
	V := universe.ReadStruct(S, reflect.ValueOf(src).Elem())
	want := ref.Encode(S, V)
	how := fmt.Sprintf("field %s declared default %q value default[%d:%d] (sharing the default's memory) position %s", field, dflt, a, b, pos)
	buf := make([]byte, len(want)+64)
	r := Enc(buf, src)
	if r.Panic != nil || r.Err != nil {
		c.Fail(fmt.Sprintf("EncodeObject failed: %v [%s]", r, how), mkCase("C10", "encode-failed", S, V, nil, nil))
		return
	}
	gc, err := ref.Canonical(buf[:r.N])
	wc, _ := ref.Canonical(want)
	if err != nil || !bytes.Equal(gc, wc) {
		c.Fail(fmt.Sprintf("encoding differs from the reference: a value that differs from the declared default in content must be written, one equal in content omitted [%s]", how),
			mkCase("C10", "omission-mismatch", S, V, buf[:r.N], map[string]string{"reference": hx(want)}))
		return
	}
	if sz := Size(src); sz.Panic != nil || sz.N != len(want) {
		c.Fail(fmt.Sprintf("EncodedSize %v, want %d [%s]", sz, len(want), how), mkCase("C10", "size-mismatch", S, V, nil, nil))
		return
	}
	dv := decodeAndCompare(S, want, decodeOpts{Guard: true})
	if dv.Class != "" {
		c.Fail(dv.Msg+" ["+how+"]", mkCase("C10", "decode-"+dv.Class, S, V, want, dv.detail()))
		return
	}
	harness.Cur.Outcome(harness.Hash64(want, []byte(how)), pos+"/"+field)
}
