package checks

import (
	"fmt"

	"github.com/cloudwego/frugal/zverif/explore"
	"github.com/cloudwego/frugal/zverif/harness"
	"github.com/cloudwego/frugal/zverif/hooks"
	"github.com/cloudwego/frugal/zverif/universe"
)

// Phase "unknown-containers": an unknown field whose value nests containers DIRECTLY in containers
// (list<list<...>>, set<set<...>>, map<i32:map<...>>, map<map<...>:i32> and mixtures) with no struct
// in between: the bound on skipped values counts every level, not only structs.

var c15PureForms = []string{"l", "s", "v", "k", "lv", "ks", "lsvk"}

// c15PureValue returns the wire type code and the bytes of `depth` nested containers following form cyclically.
func c15PureValue(form string, depth int) (byte, []byte) {
	code := func(ch byte) byte {
		switch ch {
		case 'l':
			return 15
		case 's':
			return 14
		}
		return 13
	}
	var b []byte
	var closes [][]byte
	for i := 0; i < depth; i++ {
		ch := form[i%len(form)]
		next := byte(8) // innermost element type: i32
		if i+1 < depth {
			next = code(form[(i+1)%len(form)])
		}
		count := byte(1)
		if i+1 == depth {
			count = 0
		}
		switch ch {
		case 'l', 's':
			b = append(b, next, 0, 0, 0, count)
			closes = append(closes, nil)
		case 'v': // map<i32:next>
			b = append(b, 8, next, 0, 0, 0, count)
			if count == 1 {
				b = append(b, 0, 0, 0, 42)
			}
			closes = append(closes, nil)
		case 'k': // map<next:i32>
			b = append(b, next, 8, 0, 0, 0, count)
			if count == 1 {
				closes = append(closes, []byte{0, 0, 0, 7})
			} else {
				closes = append(closes, nil)
			}
		}
	}
	for i := depth - 1; i >= 0; i-- {
		b = append(b, closes[i]...)
	}
	return code(form[0]), b
}

func c15Pure(c *explore.C, tier universe.Tier) {
	form := c15PureForms[c.Choose(len(c15PureForms), explore.Data, "form")]
	holder := c.Bool(explore.Data, "reader-is-the-one-field-type")
	harness.Cur.Crumb(c.Choices())
	hooks.Reset()
	var depths []int
	for d := 1; d <= 200; d++ {
		depths = append(depths, d)
	}
	depths = append(depths, 1000, 20000)
	if form == "l" || form == "v" {
		depths = append(depths, 1000000)
	}
	firstReject, lastAccept := 0, 0
	for _, d := range depths {
		wt, val := c15PureValue(form, d)
		msg := append([]byte{8, 0, 7, 0, 0, 0, 5, wt, 0, 99}, val...) // X=5, then the unknown field 99
		msg = append(msg, 0)
		var r Res
		x := int32(0)
		if holder {
			dst := &universe.RU{}
			r = Dec(msg, dst)
			x = dst.X
		} else {
			dst := &universe.R{}
			r = Dec(msg, dst)
			x = dst.X
		}
		cs := func(class string) *harness.Case {
			return &harness.Case{Property: "C15", Class: class, Type: "universe.R / RU (unknown field 99)", Detail: map[string]interface{}{"form": form, "levels": d, "result": r.String(), "message_bytes": len(msg), "one_field_reader": holder}}
		}
		switch {
		case r.Panic != nil:
			c.Fail(fmt.Sprintf("DecodeObject panics on an unknown field nesting %d containers (%s): %v", d, form, r.Panic), cs("panic"))
			return
		case r.Err == nil:
			if r.N != len(msg) || x != 5 {
				c.Fail(fmt.Sprintf("accepted message with an unknown field of %d nested containers decoded wrongly (%s): n=%d of %d X=%d", d, form, r.N, len(msg), x), cs("wrong-value"))
				return
			}
			if firstReject != 0 {
				c.Fail(fmt.Sprintf("acceptance is not monotone: %d levels rejected but %d accepted (%s)", firstReject, d, form), cs("not-monotone"))
				return
			}
			if d > 65 {
				c.Fail(fmt.Sprintf("an unknown field nesting %d containers directly in one another is accepted (%s): skipped values are bounded like everything else", d, form), cs("too-deep-accepted"))
				return
			}
			lastAccept = d
		default:
			if !isDepthErr(r.Err) {
				c.Fail(fmt.Sprintf("a well-formed message with an unknown field of %d nested containers is rejected with an error that is not a depth-limit protocol error (%s): %v", d, form, r.Err), cs("wrong-error"))
				return
			}
			if d+1 <= 48 {
				c.Fail(fmt.Sprintf("an unknown field nested only %d levels deep is rejected (%s): %v", d, form, r.Err), cs("shallow-rejected"))
				return
			}
			if firstReject == 0 {
				firstReject = d
			}
		}
	}
	harness.Cur.Evals(int64(len(depths)))
	harness.Cur.Outcome(harness.Hash64([]byte(form), []byte{byte(lastAccept)}), fmt.Sprintf("last-accepted=%d", lastAccept))
	harness.Cur.Sample(func() interface{} {
		return map[string]interface{}{"form": form, "one_field_reader": holder, "last_accepted_levels": lastAccept, "first_rejected_levels": firstReject}
	})
}
