//go:build !race

package sched

func handOff(wake, wait chan struct{}) {
	wake <- struct{}{}
	<-wait
}

func wakeOnly(wake chan struct{}) { wake <- struct{}{} }
func waitWake(wait chan struct{}) { <-wait }

// RaceBuild reports whether the binary was built with the race detector.
const RaceBuild = false

// Invisible runs f (see race_on.go).
func Invisible(f func()) { f() }
