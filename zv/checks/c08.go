package checks

import (
	"fmt"
	"reflect"
	"unsafe"

	"github.com/cloudwego/frugal/zverif/explore"
	"github.com/cloudwego/frugal/zverif/harness"
	"github.com/cloudwego/frugal/zverif/hooks"
	"github.com/cloudwego/frugal/zverif/ref"
	"github.com/cloudwego/frugal/zverif/universe"
)

// typeAddr is the address of the runtime type descriptor of rt - the key frugal's descriptor map hashes.
func typeAddr(rt reflect.Type) uintptr {
	return (*[2]uintptr)(unsafe.Pointer(&rt))[1]
}

const c08BucketMask = 0xffff

var c08Salt int

// freshStruct builds a never-seen-before copy of the spec (new Go types for it and all nested structs).
func freshStruct(build func() *ref.Struct) *ref.Struct {
	c08Salt++
	universe.Salt = fmt.Sprintf("c08-%d", c08Salt)
	s := build()
	universe.StructGoType(s)
	universe.Salt = ""
	return s
}

// Every execution starts from a reset state, so the same Go types serve all
// executions of a worker (a use after the reset is a first use again).  They
// are built once: the anchor type and a second type whose struct or pointer
// type descriptor shares a descriptor-map bucket with the anchor's (collision
// forced by drawing fresh types until one collides).
var (
	c08Anchor, c08Other *ref.Struct
	c08Collides         bool
)

func c08Types() (*ref.Struct, *ref.Struct) {
	if c08Anchor != nil {
		return c08Anchor, c08Other
	}
	c08Anchor = freshStruct(c08Shape)
	want := map[uintptr]bool{}
	at := universe.StructGoType(c08Anchor)
	want[typeAddr(at)&c08BucketMask] = true
	want[typeAddr(reflect.PtrTo(at))&c08BucketMask] = true
	for i := 0; i < 200000 && c08Other == nil; i++ {
		s := freshStruct(c08Shape)
		rt := universe.StructGoType(s)
		if want[typeAddr(rt)&c08BucketMask] || want[typeAddr(reflect.PtrTo(rt))&c08BucketMask] {
			c08Other, c08Collides = s, true
		}
	}
	if c08Other == nil {
		c08Other = freshStruct(c08Shape)
	}
	return c08Anchor, c08Other
}

// c08Scenario builds, per execution, the thread bodies (as histOps over fresh types) of one scenario.
type c08Scenario struct {
	name  string
	build func(c *explore.C, nthreads int) (threads [][]histOp, tracked []reflect.Type)
	// freshOK: in the race-detector build (where the 512 KB state reset is very slow) the scenario may run
	// on never-seen-before types without a reset: a fresh type's first use is a first use.
	freshOK bool
}

var c08Seq = map[string]string{}

// c08Fresh is set while a race-build execution runs without a state reset.
var c08Fresh bool

// c08Main returns the main type of a scenario: the cached per-worker type, or a brand-new one.
func c08Main() *ref.Struct {
	if c08Fresh {
		return freshStruct(c08Shape)
	}
	s, _ := c08Types()
	return s
}

func c08Inner() *ref.Struct {
	sc := universe.Sc
	return mk(fd(1, ref.ReqDefault, sc(ref.KI32)), fd(2, ref.ReqOptional, ptrTo(sc(ref.KString))))
}

func c08Shape() *ref.Struct {
	sc := universe.Sc
	in := c08Inner()
	// (the maps with binary values and double keys go through the encoder's generic, reflection-iterated routine)
	s := mk(fd(1, ref.ReqRequired, sc(ref.KI64)), fd(2, ref.ReqDefault, universe.MapOf(sc(ref.KI32), universe.StVal(in))), fd(3, ref.ReqOptional, universe.ListOf(universe.StPtr(in))),
		fd(5, ref.ReqDefault, universe.MapOf(sc(ref.KString), sc(ref.KBinary))), fd(6, ref.ReqDefault, universe.MapOf(sc(ref.KDouble), sc(ref.KI32))), fd(64, ref.ReqRequired, sc(ref.KString)))
	s.Unknown = true
	return s
}

func c08Value(s *ref.Struct, salt int) *ref.Val {
	v := c11Value(s, salt)
	v.Unk = unknownSamples[salt%len(unknownSamples)]
	return v
}

// entryOps: the three entry points on one type, with thread-specific values.
func entryOps(tag string, s *ref.Struct, salt int) []histOp {
	v := c08Value(s, salt)
	msg := ref.Encode(s, v)
	e := encOps(tag, s, v)
	ops := []histOp{e[0], e[1], e[2], e[3], decOp(tag+":dec", s, msg, nil), decOp(tag+":dec(truncated)", s, msg[:len(msg)-3], nil)}
	if last := s.Fields[len(s.Fields)-1]; last.Req == ref.ReqRequired {
		// the same message without its last (required) field: rejected with an error naming that field
		w := &ref.Struct{Unknown: s.Unknown, Fields: s.Fields[:len(s.Fields)-1]}
		wv := &ref.Val{K: ref.KStruct, F: v.F[:len(v.F)-1], Unk: v.Unk}
		ops = append(ops, decOp(tag+":dec(required field missing)", s, ref.Encode(w, wv), nil))
	}
	return ops
}

var c08Scenarios = []c08Scenario{
	{name: "a:same-fresh-type-first-use", freshOK: true, build: func(c *explore.C, n int) ([][]histOp, []reflect.Type) {
		s := c08Main()
		var th [][]histOp
		for t := 0; t < n; t++ {
			ops := entryOps("T", s, 3+t)
			k := c.Choose(len(ops), explore.Data, "entry-point")
			th = append(th, []histOp{ops[k]})
		}
		return th, []reflect.Type{universe.StructGoType(s)}
	}},
	{name: "b:mutually-nested-first-use", build: func(c *explore.C, n int) ([][]histOp, []reflect.Type) {
		// a valid mutually nested static pair: each thread first uses a different member (types are static: the
		// state reset makes this a first use again)
		var p *universe.GraphPair
		pick := c.Choose(2, explore.Data, "pair")
		cnt := 0
		for i := range universe.GraphPairs {
			q := &universe.GraphPairs[i]
			if q.AB && q.BA && !q.BadA && !q.BadB {
				if cnt == pick {
					p = q
				}
				cnt++
			}
		}
		var th [][]histOp
		for t := 0; t < n; t++ {
			rt := p.A
			if t%2 == 1 {
				rt = p.B
			}
			ops := staticOps(rt.Name(), rt)
			th = append(th, []histOp{ops[c.Choose(len(ops), explore.Data, "entry-point")]})
		}
		return th, []reflect.Type{p.A, p.B}
	}},
	{name: "c:steady-state-vs-registration-in-same-bucket", build: func(c *explore.C, n int) ([][]histOp, []reflect.Type) {
		anchor, other := c08Types()
		// register the anchor before the run (steady state)
		ops := entryOps("Anchor", anchor, 1)
		ops[2].run()
		ops[4].run()
		if c08Collides {
			harness.Cur.Count("executions_with_forced_bucket_collision", 1)
		}
		th := [][]histOp{{ops[2], ops[4]}}
		for t := 1; t < n; t++ {
			o := entryOps("Other", other, 5+t)
			th = append(th, []histOp{o[c.Choose(len(o), explore.Data, "entry-point")]})
		}
		return th, []reflect.Type{universe.StructGoType(anchor), universe.StructGoType(other)}
	}},
	{name: "d:concurrent-decodes-pooled-scratch", freshOK: true, build: func(c *explore.C, n int) ([][]histOp, []reflect.Type) {
		s := c08Main()
		warm := entryOps("T", s, 1)
		warm[4].run()
		var th [][]histOp
		for t := 0; t < n; t++ {
			ops := entryOps("T", s, 7+3*t)
			k := 4 + c.Choose(2, explore.Data, "decode-kind")
			th = append(th, []histOp{ops[k], ops[4]})
		}
		return th, []reflect.Type{universe.StructGoType(s)}
	}},
	{name: "f:concurrent-decodes-nested-default-initialisers", build: func(c *explore.C, n int) ([][]histOp, []reflect.Type) {
		// steady state: the static type (nested structs with a default initialiser) is registered before the run
		d, o := universe.DfltOptSpecs()
		mkv := func(a int64, str string) *ref.Val {
			v := ref.InitStruct(d)
			v.F[0], v.F[1] = ref.Int(ref.KI32, a), ref.Str(str)
			return v
		}
		ov := func(salt int64) *ref.Val {
			v := ref.ZeroStruct(o)
			v.F[0] = mkv(salt, "p")
			v.F[1] = mkv(salt+1, "v")
			v.F[2] = ref.List(ref.KList, mkv(salt+2, "l"), ref.InitStruct(d))
			v.F[4] = &ref.Val{K: ref.KMap, M: [][2]*ref.Val{{ref.Int(ref.KI32, 1), mkv(salt+3, "m")}}}
			return v
		}
		Dec(ref.Encode(o, ov(1)), universe.New(o, nil).Interface())
		var th [][]histOp
		for t := 0; t < n; t++ {
			msg := ref.Encode(o, ov(int64(10*(t+1))))
			th = append(th, []histOp{decOp(fmt.Sprintf("DfltOptOuter:dec(%d)", t), o, msg, nil), decOp(fmt.Sprintf("DfltOptOuter:dec2(%d)", t), o, msg, nil)})
		}
		return th, nil
	}},
	{name: "g:lookups-while-the-registry-grows", build: func(c *explore.C, n int) ([][]histOp, []reflect.Type) {
		// W static types are registered before the run (sequentially), then one thread uses a new type for the
		// first time while the others keep using an old one: a registry that grows or rehashes at some size
		// must keep serving lock-free lookups meanwhile.  W ranges over typical thresholds (2^k - 1).
		ws := []int{15, 31}
		if c08Tier == universe.Thorough {
			ws = []int{0, 1, 3, 7, 15, 16, 31, 32, 63, 64}
		}
		w := ws[c.Choose(len(ws), explore.Data, "types-registered-before")]
		var valid []reflect.Type
		for i := range universe.GraphPairs {
			q := &universe.GraphPairs[i]
			if !q.BadA && !q.BadB && !q.AB && !q.BA {
				valid = append(valid, q.A, q.B)
			}
		}
		old := valid[0]
		buf := make([]byte, 64)
		Enc(buf, reflect.New(old).Interface())
		for i := 1; i <= w && i < len(valid); i++ {
			Enc(buf, reflect.New(valid[i]).Interface())
		}
		s := c08Main()
		ops := entryOps("T", s, 3)
		th := [][]histOp{{ops[c.Choose(len(ops), explore.Data, "entry-point")]}}
		for t := 1; t < n; t++ {
			o := staticOps(old.Name(), old)
			th = append(th, []histOp{o[0], o[1]})
		}
		return th, []reflect.Type{universe.StructGoType(s)}
	}},
	{name: "e:by-value-calls-shared-scratch", freshOK: true, build: func(c *explore.C, n int) ([][]histOp, []reflect.Type) {
		s := c08Main()
		if c.Bool(explore.Data, "registered-before") {
			entryOps("T", s, 1)[3].run()
		}
		var th [][]histOp
		for t := 0; t < n; t++ {
			ops := entryOps("T", s, 11+5*t)
			k := []int{1, 3}[c.Choose(2, explore.Data, "size-or-encode")]
			th = append(th, []histOp{ops[k], ops[3]})
		}
		return th, []reflect.Type{universe.StructGoType(s)}
	}},
}

func init() {
	harness.Register(&harness.Check{
		ID:          "C08",
		Level:       "model_checking",
		Explanation: "Engine E2: the real frugal code is compiled against scheduler-aware shims of sync and sync/atomic (import rewrite by build overlay); 2 (thorough 3) goroutines run 1-2 public API calls each on fresh reflect.StructOf types, and ALL interleavings at synchronisation operations with <=2 (thorough 3) preemptions are enumerated by the E1 explorer, pool answers being environment choices. Oracles: no panic, no deadlock/livelock, every call returns its sequential (first-call-in-a-fresh-process) result, at every scheduling point every published descriptor-map slot is immutable (copy-on-write) and every lock-free reachable descriptor is complete. A second build of the same explorer with the race detector, in which the scheduler's hand-offs are invisible to the detector, re-explores the schedules: a conflicting, unordered access pair is reported on every schedule where both accesses occur. Component phase (E3): linearizability of the descriptor map under all interleavings (porcupine).",
		Assumptions: []string{"go1.23.5 toolchain", "scheduling only at synchronisation operations is sufficient under data-race freedom, which the race-detector exploration checks on the same schedules", "the shim primitives declare to the race detector exactly the edges of the real primitives (mutex unlock->lock, Pool.Put->Get of that object, atomics as real atomics)", "memory orderings weaker than the Go memory model are not modelled"},
		Phases: func(tier universe.Tier) []*harness.Phase {
			bound, raceBound := 2, 1
			if tier == universe.Thorough {
				bound, raceBound = 3, 2
			}
			ps := []*harness.Phase{
				{Name: "interleavings", Bound: bound, Gate: true, FineCrumbs: true, Weight: 2, Rule: "7 scenarios x entry-point choices x all schedules with <=2 (thorough 3) preemptions (pool answer deviations share the bound); distinct by (scenario, schedule)", Body: func(c *explore.C) { c08Body(c, tier, false) }},
				{Name: "interleavings-race", Bound: raceBound, Race: true, Gate: true, FineCrumbs: true, Weight: 2, Rule: "the same scenarios with <=1 (thorough 2) preemptions in a -race build whose scheduler hand-offs create no happens-before edge; any data race aborts the worker and is pinned to the schedule", Body: func(c *explore.C) { c08Body(c, tier, true) }},
			}
			return append(ps, e3Phases("C08")...)
		},
	})
}

var c08Tier universe.Tier

func c08Body(c *explore.C, tier universe.Tier, race bool) {
	c08Tier = tier
	nthreads := 2
	if tier == universe.Thorough {
		nthreads = 2 + c.Choose(2, explore.Data, "threads")
	}
	sc := c08Scenarios[c.Choose(len(c08Scenarios), explore.Data, "scenario")]
	harness.Cur.Crumb(c.Choices())
	// every execution starts from a full reset and uses the SAME Go types: their addresses feed the
	// library's hash structures, so fresh types per execution would make the shape of a schedule depend
	// on the execution (met with a refactor to an address-hashed probing table); the in-place reset is
	// cheap enough under the race detector now
	c08Fresh = false
	if c08Fresh {
		hooks.ResetLight()
	} else {
		hooks.Reset()
	}
	threads, tracked := sc.build(c, nthreads)
	c.Gate()
	harness.Cur.Crumb(c.Choices())
	// sequential reference: every op alone from a reset state... the ops are pure functions of their
	// arguments (C07), so the reference is the op run sequentially after the run, from a reset state
	results := make([][]string, len(threads))
	renderers := make([][]func() string, len(threads))
	bodies := make([]func(), len(threads))
	for t := range threads {
		t := t
		results[t] = make([]string, len(threads[t]))
		renderers[t] = make([]func() string, len(threads[t]))
		bodies[t] = func() {
			for i, op := range threads[t] {
				renderers[t][i] = op.exec() // results are rendered after the run, outside the threads
			}
		}
	}
	var onPoint func(string)
	var inv *c08Invariant
	if !race && e3Available {
		inv = newC08Invariant(tracked)
		onPoint = inv.check
	}
	run := hooks.RunThreads(c, 4000, onPoint, bodies...)
	var names [][]string
	for t := range threads {
		var ns []string
		for _, op := range threads[t] {
			ns = append(ns, op.name)
		}
		names = append(names, ns)
	}
	cs := func(class string, detail interface{}) *harness.Case {
		return &harness.Case{Property: "C08", Class: class, Type: sc.name, Detail: map[string]interface{}{"threads": names, "detail": detail, "steps": run.Steps}}
	}
	if run.Deadlock != "" {
		c.Fail("deadlock: "+run.Deadlock, cs("deadlock", run.Deadlock))
		return
	}
	if run.Livelock {
		c.Fail("livelock: the threads did not finish within the step horizon", cs("livelock", nil))
		return
	}
	for t, th := range run.Threads() {
		if th.Panic != nil {
			if explore.IsHarnessPanic(th.Panic) {
				panic(th.Panic) // the explorer's own control flow (skip / harness error), raised inside a thread
			}
			c.Fail(fmt.Sprintf("thread %d panics: %v", t, th.Panic), cs("panic", fmt.Sprint(th.Panic)))
			return
		}
	}
	if inv != nil && inv.violation != "" {
		c.Fail(inv.violation, cs("invariant", inv.violation))
		return
	}
	for t := range renderers {
		for i, f := range renderers[t] {
			if f != nil {
				results[t][i] = f()
			}
		}
	}
	// compare with the sequential result of each call
	for t := range threads {
		for i, op := range threads[t] {
			// the sequential reference: the same call alone from a reset state (computed once per
			// distinct call of a scenario: the calls are deterministic functions of their arguments)
			key := fmt.Sprintf("%s|%d|%d|%s", sc.name, t, i, op.name)
			want, ok := c08Seq[key]
			if !ok || c08Fresh { // (fresh types: error texts carry the type's name, nothing to share)
				if c08Fresh {
					hooks.ResetLight()
				} else {
					hooks.Reset()
				}
				want = op.run()
				c08Seq[key] = want
			}
			if results[t][i] != want {
				c.Fail(fmt.Sprintf("thread %d call %d (%s) returns something else than in a sequential execution", t, i+1, op.name),
					cs("result-differs", map[string]string{"got": clip(results[t][i]), "sequential": clip(want)}))
				return
			}
		}
	}
	// the order in which the threads got the registration lock is an observable of the schedule:
	// many schedules with a single lock order would mean the threads never contended
	harness.Cur.Outcome(harness.Hash64([]byte(sc.name), []byte(fmt.Sprint(c.Choices()))), fmt.Sprintf("%s lock-order=%v", sc.name, run.Acquires))
	harness.Cur.Sample(func() interface{} {
		return map[string]interface{}{"scenario": sc.name, "threads": names, "schedule_choices": c.Choices(), "scheduling_points": run.Steps}
	})
}
