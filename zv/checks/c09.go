package checks

import (
	"errors"
	"fmt"
	"strings"

	gthrift "github.com/cloudwego/gopkg/protocol/thrift"

	"github.com/cloudwego/frugal/zverif/explore"
	"github.com/cloudwego/frugal/zverif/harness"
	"github.com/cloudwego/frugal/zverif/hooks"
	"github.com/cloudwego/frugal/zverif/ref"
	"github.com/cloudwego/frugal/zverif/universe"
)

// id triples around the 64-bit word boundaries of the presence set
var c09Triples = [][3]uint16{{0, 1, 2}, {62, 63, 64}, {63, 64, 65}, {127, 128, 255}, {4095, 4096, 8191}, {1, 32767, 32768}, {64, 65534, 65535}}

// c09Core builds the struct whose fields at the given ids are required according to mask.
func c09Core(ids [3]uint16, mask int) *ref.Struct {
	sc := universe.Sc
	types := []*ref.Type{sc(ref.KI32), sc(ref.KString), universe.StPtr(universe.Leaf())}
	s := &ref.Struct{}
	for i := 0; i < 3; i++ {
		req := ref.ReqDefault
		if mask&(1<<i) != 0 {
			req = ref.ReqRequired
		}
		s.Fields = append(s.Fields, fd(ids[i], req, types[i]))
	}
	// declared in the order 3rd, 1st, 2nd: the Go declaration order is not the id order
	s.Fields = []*ref.Field{s.Fields[2], s.Fields[0], s.Fields[1]}
	universe.StructGoType(s)
	s.SortFields()
	return s
}

var c09Positions = []string{"top", "field*", "field", "list*", "list", "mapval*", "mapval", "mapkey*"}

// c09Wrap nests core at the given position; the returned builder makes a value
// of the outer type from two core values.
func c09Wrap(core *ref.Struct, pos string) (*ref.Struct, func(a, b *ref.Val) *ref.Val) {
	sc := universe.Sc
	D := ref.ReqDefault
	one := func(t *ref.Type, mkv func(a, b *ref.Val) *ref.Val) (*ref.Struct, func(a, b *ref.Val) *ref.Val) {
		o := mk(fd(1, D, t), fd(2, D, sc(ref.KI8)))
		return o, func(a, b *ref.Val) *ref.Val {
			return &ref.Val{K: ref.KStruct, F: []*ref.Val{mkv(a, b), ref.Int(ref.KI8, 7)}}
		}
	}
	switch pos {
	case "top":
		return core, func(a, b *ref.Val) *ref.Val { return a }
	case "field*":
		return one(universe.StPtr(core), func(a, b *ref.Val) *ref.Val { return a })
	case "field":
		return one(universe.StVal(core), func(a, b *ref.Val) *ref.Val { return a })
	case "list*":
		return one(universe.ListOf(universe.StPtr(core)), func(a, b *ref.Val) *ref.Val { return ref.List(ref.KList, a, b) })
	case "list":
		return one(universe.ListOf(universe.StVal(core)), func(a, b *ref.Val) *ref.Val { return ref.List(ref.KList, a, b) })
	case "mapval*":
		return one(universe.MapOf(sc(ref.KI32), universe.StPtr(core)), func(a, b *ref.Val) *ref.Val {
			return &ref.Val{K: ref.KMap, M: [][2]*ref.Val{{ref.Int(ref.KI32, 1), a}, {ref.Int(ref.KI32, 2), b}}}
		})
	case "mapval":
		return one(universe.MapOf(sc(ref.KI32), universe.StVal(core)), func(a, b *ref.Val) *ref.Val {
			return &ref.Val{K: ref.KMap, M: [][2]*ref.Val{{ref.Int(ref.KI32, 1), a}, {ref.Int(ref.KI32, 2), b}}}
		})
	case "mapkey*":
		return one(universe.MapOf(universe.StPtr(core), sc(ref.KI32)), func(a, b *ref.Val) *ref.Val {
			return &ref.Val{K: ref.KMap, M: [][2]*ref.Val{{a, ref.Int(ref.KI32, 1)}, {b, ref.Int(ref.KI32, 2)}}}
		})
	}
	panic(pos)
}

// c09Writer returns a writer schema for core in which every field is
// optional-pointer-ish so that any subset can be omitted, and field `wrong`
// (if >= 0) is written with a different wire type.
func c09Writer(core *ref.Struct, wrong int) *ref.Struct {
	w := &ref.Struct{}
	for i, f := range core.Fields {
		t := *f.Type
		if i == wrong {
			t = *universe.Sc(ref.KI64)
			if f.Type.Kind == ref.KI64 {
				t = *universe.Sc(ref.KBool)
			}
		}
		t.Ptr = true
		w.Fields = append(w.Fields, &ref.Field{ID: f.ID, Req: ref.ReqOptional, Type: &t, Name: f.Name})
	}
	return w
}

func c09CoreVal(w *ref.Struct, present int, salt int) *ref.Val {
	v := &ref.Val{K: ref.KStruct, F: make([]*ref.Val, len(w.Fields))}
	for i, f := range w.Fields {
		if present&(1<<i) != 0 {
			v.F[i] = universe.Nth(f.Type, salt+i)
		}
	}
	return v
}

// retarget swaps the core struct inside the outer schema for the writer's version.
func retarget(outer, core, w *ref.Struct) *ref.Struct {
	if outer == core {
		return w
	}
	var sub func(t *ref.Type) *ref.Type
	sub = func(t *ref.Type) *ref.Type {
		c := *t
		if t.St == core {
			c.St = w
		}
		if t.Elem != nil {
			c.Elem = sub(t.Elem)
		}
		if t.Key != nil {
			c.Key = sub(t.Key)
		}
		return &c
	}
	o := &ref.Struct{}
	for _, f := range outer.Fields {
		c := *f
		c.Type = sub(f.Type)
		o.Fields = append(o.Fields, &c)
	}
	return o
}

func init() {
	harness.Register(&harness.Check{
		ID:          "C09",
		Level:       "model_checking",
		Explanation: "Bounded exhaustive enumeration (E1): struct types with every subset of three fields required at ids on both sides of the presence-set word boundaries, nested at every position; messages omitting every pair of subsets of the fields (two struct occurrences) or carrying a field with the wrong wire type; each decode preceded by every one-call history over the same ids with the pooled presence set returned LIFO or deviating (deviation-bounded environment choice); the encoder half checks a header for every required field. Component phase (E3): explicit-state search over the real presence bitset against a Go map.",
		Assumptions: []string{"go1.23.5 toolchain", "which of several missing required fields is named first is not pinned: the name must belong to the set of lacking fields"},
		Phases: func(tier universe.Tier) []*harness.Phase {
			bound := 1
			if tier == universe.Thorough {
				bound = 2
			}
			ps := []*harness.Phase{
				{Name: "required-decode", Bound: bound, Rule: "5 (thorough 7) id triples x 8 required-masks x 8 nesting positions x (64 omission pairs + 3 wrong-wire-type variants) x 6 one-call histories (none - then also 3 wire orders of the fields - / successful same type / successful sibling type / required-missing failure / truncation failures) x pool answers with <=bound deviations; distinct by (type, message, history)", Body: func(c *explore.C) { c09Decode(c, tier) }},
				{Name: "required-many", Rule: "a struct with 73 fields (ids 1..70, 4096, 32768, 65535; declared in descending id order) of which all / the last nine / every seventh are required: every single omission x 4 second omissions; the error must name a lacking field", Body: func(c *explore.C) { c09Many(c, tier) }},
				{Name: "required-kinds", Rule: "the required field ranges over 24 field forms (14 base forms, zero-copy string/binary, named Go types, containers of structs and enums, holder struct) x 3 sets of neighbour fields x 4 positions x {complete, absent, wrong wire type, present twice} x with/without unknown-fields holder", Body: func(c *explore.C) { c09Kinds(c, tier) }},
				{Name: "required-encode", Rule: "7 id triples x 8 masks x 8 positions x {zero, nil, set} values: every required field id occurs in the output", Body: func(c *explore.C) { c09Encode(c, tier) }},
			}
			return append(ps, e3Phases("C09")...)
		},
	})
}

func c09Decode(c *explore.C, tier universe.Tier) {
	tris := c09Triples
	if tier == universe.Quick {
		tris = tris[1:6] // quick: five of the seven id triples
	}
	tri := tris[c.Choose(len(tris), explore.Data, "ids")]
	mask := c.Choose(8, explore.Data, "required-mask")
	pos := c09Positions[c.Choose(len(c09Positions), explore.Data, "position")]
	core := c09Core(tri, mask)
	outer, build := c09Wrap(core, pos)
	universe.StructGoType(outer) // assigns Go field names used in error messages
	variant := c.Choose(64+3, explore.Data, "omission")
	wrong := -1
	pa, pb := 7, 7
	if variant < 64 {
		pa, pb = variant&7, variant>>3
	} else {
		wrong = variant - 64
	}
	w := c09Writer(core, wrong)
	wouter := retarget(outer, core, w)
	hist := c.Choose(6, explore.Data, "history")
	order := 0
	if hist == 0 {
		// fields of the core struct on the wire in ascending / descending / rotated id order (any order is legal
		// Thrift: peers write in declaration order); enumerated for the history-free case
		order = c.Choose(3, explore.Data, "wire-order")
	}
	msg := ref.EncodeWith(wouter, build(c09CoreVal(w, pa, 1), c09CoreVal(w, pb, 4)), func(st *ref.Struct) []int {
		if st != w || order == 0 {
			return nil
		}
		n := len(st.Fields)
		o := make([]int, n)
		for i := range o {
			if order == 1 {
				o[i] = n - 1 - i
			} else {
				o[i] = (i + 1) % n
			}
		}
		return o
	})
	harness.Cur.Crumb(c.Choices())
	hooks.Reset()
	var fail *decodeVerdict
	hooks.WithEnv(c, func() {
		switch hist {
		case 1: // a complete message of the same type first
			full := ref.Encode(wouter, build(c09CoreVal(c09Writer(core, -1), 7, 2), c09CoreVal(c09Writer(core, -1), 7, 3)))
			Dec(full, universe.New(outer, nil).Interface())
		case 2: // another type using the same ids, all required, decoded successfully first
			other := c09Core(tri, 7)
			full := ref.Encode(other, c09CoreVal(c09Writer(other, -1), 7, 5))
			Dec(full, universe.New(other, nil).Interface())
		case 3: // a decode of the same type that FAILS for a missing required field (all others present)
			part := ref.Encode(wouter, build(c09CoreVal(c09Writer(core, -1), 7&^mask|mask&6, 2), c09CoreVal(c09Writer(core, -1), 7, 3)))
			Dec(part, universe.New(outer, nil).Interface())
		case 4: // a decode of the same type that fails by truncation after its fields were seen
			full := ref.Encode(wouter, build(c09CoreVal(c09Writer(core, -1), 7, 2), c09CoreVal(c09Writer(core, -1), 7, 3)))
			Dec(full[:len(full)-1], universe.New(outer, nil).Interface())
		case 5: // the all-required sibling type fails midway (truncated inside its last field)
			other := c09Core(tri, 7)
			full := ref.Encode(other, c09CoreVal(c09Writer(other, -1), 7, 5))
			Dec(full[:len(full)-2], universe.New(other, nil).Interface())
		}
		fail = decodeAndCompare(outer, msg, decodeOpts{Guard: true})
	})
	dv := fail
	how := fmt.Sprintf("ids %v required-mask %03b position %s present A=%03b B=%03b wrong-type field %d history %d wire-order %d", tri, mask, pos, pa, pb, wrong, hist, order)
	if dv.Class != "" {
		c.Fail(dv.Msg+" ["+how+"]", mkCase("C09", dv.Class, outer, nil, msg, dv.detail()))
		return
	}
	if !dv.Exp.OK && dv.Exp.Err == ref.ERequired {
		// must be an invalid-data protocol error naming a lacking field
		var pe *gthrift.ProtocolException
		if !errors.As(dv.Res.Err, &pe) || pe.TypeID() != gthrift.INVALID_DATA {
			c.Fail(fmt.Sprintf("missing required field reported with the wrong error kind: %v [%s]", dv.Res.Err, how), mkCase("C09", "wrong-error-kind", outer, nil, msg, dv.detail()))
			return
		}
		named := false
		for _, n := range dv.Exp.Missing {
			if namesField(pe.Error(), n) {
				named = true
			}
		}
		if !named {
			c.Fail(fmt.Sprintf("required-field error %q names none of the lacking fields %v [%s]", pe.Error(), dv.Exp.Missing, how), mkCase("C09", "wrong-field-named", outer, nil, msg, dv.detail()))
			return
		}
	}
	cls := "accepted"
	if !dv.Exp.OK {
		cls = "rejected"
	}
	harness.Cur.Outcome(harness.Hash64(msg, []byte(outer.String()), []byte{byte(hist)}), pos+"/"+cls)
	harness.Cur.Sample(func() interface{} {
		return map[string]interface{}{"type": outer.String(), "message": hx(msg), "how": how, "reference": fmt.Sprintf("ok=%v missing=%v", dv.Exp.OK, dv.Exp.Missing)}
	})
}

// c09Many: 70 required fields at ids 1..70 plus three far ones; every single omission and a few pairs.
func c09Many(c *explore.C, tier universe.Tier) {
	const n = 73
	omitA := c.Choose(n+1, explore.Data, "omitted-field") // n = none
	omitB := c.Choose(4, explore.Data, "second-omission")
	which := c.Choose(3, explore.Data, "which-fields-are-required") // all / only the last nine / every seventh
	harness.Cur.Crumb(c.Choices())
	hooks.Reset()
	core := &ref.Struct{}
	for i := 0; i < n; i++ {
		id := uint16(1 + i)
		if i >= 70 {
			id = []uint16{4096, 32768, 65535}[i-70]
		}
		req := ref.ReqRequired
		if which == 1 && i < n-9 || which == 2 && i%7 != 0 {
			req = ref.ReqDefault
		}
		core.Fields = append(core.Fields, fd(id, req, universe.Sc([]ref.Kind{ref.KI8, ref.KString, ref.KBool}[i%3])))
	}
	// Go declaration order differs from id order (descending): names must still be reported per field
	for a, b := 0, len(core.Fields)-1; a < b; a, b = a+1, b-1 {
		core.Fields[a], core.Fields[b] = core.Fields[b], core.Fields[a]
	}
	universe.StructGoType(core)
	core.SortFields()
	w := c09Writer(core, -1)
	v := &ref.Val{K: ref.KStruct, F: make([]*ref.Val, n)}
	for i, f := range w.Fields {
		v.F[i] = universe.Nth(f.Type, i)
	}
	if omitA < n {
		v.F[omitA] = nil
	}
	if omitB > 0 {
		v.F[[]int{0, 63, 64, 72}[omitB]] = nil
	}
	msg := ref.Encode(w, v)
	dv := decodeAndCompare(core, msg, decodeOpts{Guard: true})
	if dv.Class != "" {
		c.Fail(fmt.Sprintf("%s [73 fields, required set %d, omitted #%d and variant %d]", dv.Msg, which, omitA, omitB), mkCase("C09", dv.Class, core, nil, msg, dv.detail()))
		return
	}
	if !dv.Exp.OK && dv.Exp.Err == ref.ERequired {
		named := false
		for _, nm := range dv.Exp.Missing {
			var pe2 *gthrift.ProtocolException
			if errors.As(dv.Res.Err, &pe2) && namesField(pe2.Error(), nm) {
				named = true
			}
		}
		if !named {
			c.Fail(fmt.Sprintf("required-field error %q names none of the lacking fields %v [73 fields declared in descending id order]", dv.Res.Err, dv.Exp.Missing), mkCase("C09", "wrong-field-named", core, nil, msg, dv.detail()))
			return
		}
	}
	harness.Cur.Outcome(harness.Hash64(msg), fmt.Sprintf("ok=%v", dv.Exp.OK))
}

func c09Encode(c *explore.C, tier universe.Tier) {
	tri := c09Triples[c.Choose(len(c09Triples), explore.Data, "ids")]
	mask := c.Choose(8, explore.Data, "required-mask")
	pos := c09Positions[c.Choose(len(c09Positions), explore.Data, "position")]
	core := c09Core(tri, mask)
	outer, build := c09Wrap(core, pos)
	kind := c.Choose(3, explore.Data, "value")
	harness.Cur.Crumb(c.Choices())
	hooks.Reset()
	mkv := func(salt int) *ref.Val {
		v := ref.ZeroStruct(core) // zero scalars, nil pointer
		if kind == 2 {
			for i, f := range core.Fields {
				v.F[i] = universe.Nth(f.Type, salt+i)
			}
		}
		return v
	}
	a, b := mkv(1), mkv(2)
	if kind == 1 && pos != "top" && strings.HasSuffix(pos, "*") && pos != "mapkey*" {
		a = nil // nil pointer to the struct: written as an empty struct (C02), nothing to check inside
	}
	val := build(a, b)
	buf := make([]byte, 4096)
	r := Enc(buf, universe.New(outer, val).Interface())
	if r.Panic != nil || r.Err != nil {
		c.Fail(fmt.Sprintf("EncodeObject failed: %v", r), mkCase("C09", "encode-failed", outer, val, nil, nil))
		return
	}
	tree, _, err := ref.ParseStruct(buf[:r.N])
	if err != nil {
		c.Fail("malformed output: "+err.Error(), mkCase("C09", "malformed-output", outer, val, buf[:r.N], nil))
		return
	}
	// find every occurrence of the core struct in the parse tree and check required ids
	var occ []*ref.WNode
	if pos == "top" {
		occ = []*ref.WNode{tree}
	} else {
		for _, f := range tree.Fields {
			if f.ID != 1 {
				continue
			}
			switch f.V.T {
			case ref.WStruct:
				occ = append(occ, f.V)
			case ref.WList:
				occ = append(occ, f.V.Elems...)
			case ref.WMap:
				for i, e := range f.V.Elems {
					if e.T == ref.WStruct && (pos == "mapkey*") == (i%2 == 0) {
						occ = append(occ, e)
					}
				}
			}
		}
	}
	checked := 0
	skipNil := a == nil // the nil pointer occurrence is an empty struct; map order is arbitrary
	for _, o := range occ {
		if skipNil && len(o.Fields) == 0 {
			skipNil = false
			continue
		}
		for i, f := range core.Fields {
			if mask&(1<<i) == 0 {
				continue
			}
			found := false
			for _, wf := range o.Fields {
				if wf.ID == f.ID && wf.T == f.Type.Kind.Wire() {
					found = true
				}
			}
			checked++
			if !found {
				c.Fail(fmt.Sprintf("required field %d is not written (position %s, value kind %d)", f.ID, pos, kind), mkCase("C09", "required-not-written", outer, val, buf[:r.N], nil))
				return
			}
		}
	}
	harness.Cur.Count("required_headers_checked", int64(checked))
	harness.Cur.Outcome(harness.Hash64(buf[:r.N], []byte(outer.String())), pos)
}

// namesField: the message mentions the Go field name as a whole word (however it is quoted).
func namesField(msg, name string) bool {
	for i := 0; i+len(name) <= len(msg); i++ {
		if msg[i:i+len(name)] != name {
			continue
		}
		before := i == 0 || !isWordByte(msg[i-1])
		after := i+len(name) == len(msg) || !isWordByte(msg[i+len(name)])
		if before && after {
			return true
		}
	}
	return false
}

func isWordByte(b byte) bool {
	return b == '_' || b >= '0' && b <= '9' || b >= 'a' && b <= 'z' || b >= 'A' && b <= 'Z'
}
