// Command repro replays, through the public API of an unmodified build, the
// minimal failing inputs of the genuine defects recorded in
// /verif/known_findings.jsonl (D1…).  Each case prints "Dn ok" when the property
// holds and "Dn FAIL: …" when the defect is present.  usage: repro [D1 D2 …]
package main

import (
	"fmt"
	"os"
	"os/exec"
	"reflect"
	"runtime"
	"strings"

	"github.com/cloudwego/frugal"
)

type Inner struct {
	A int32   `frugal:"1,default,i32"`
	B *string `frugal:"2,optional,string"`
}

type res struct {
	n     int
	err   error
	pan   interface{}
	rterr bool
}

func try(f func() (int, error)) (r res) {
	defer func() {
		if p := recover(); p != nil {
			r.pan = p
			_, r.rterr = p.(runtime.Error)
		}
	}()
	r.n, r.err = f()
	return
}

var cases = map[string]func() string{
	"D1": func() string {
		type T struct {
			A int64  `frugal:"1,default,i64"`
			S string `frugal:"2,default,string"`
		}
		v := &T{A: 7, S: "hello"}
		buf := make([]byte, frugal.EncodedSize(v))
		n, _ := frugal.EncodeObject(buf, nil, v)
		for cut := 0; cut < n; cut++ {
			r := try(func() (int, error) { return frugal.DecodeObject(buf[:cut:cut], &T{}) })
			if r.pan != nil {
				return fmt.Sprintf("DecodeObject panics on the %d-byte prefix of a %d-byte message: %v", cut, n, r.pan)
			}
			if r.err == nil {
				return fmt.Sprintf("DecodeObject accepts the %d-byte strict prefix", cut)
			}
		}
		return ""
	},
	"D2": func() string {
		type T struct {
			X Inner `frugal:"1,default,Inner"`
		}
		v := &T{X: Inner{A: 5}}
		buf := make([]byte, 256)
		n, err := frugal.EncodeObject(buf, nil, v)
		if err != nil {
			return err.Error()
		}
		r := try(func() (int, error) { return frugal.EncodedSize(v), nil })
		if r.pan != nil {
			return fmt.Sprintf("EncodedSize panics: %v", r.pan)
		}
		if r.n != n {
			return fmt.Sprintf("EncodedSize=%d but EncodeObject writes %d bytes", r.n, n)
		}
		return ""
	},
	"D3": func() string {
		type T struct {
			M map[string][]byte `frugal:"1,default,map<string:binary>"`
		}
		v := &T{M: map[string][]byte{"a": []byte("xy"), "b": []byte("z"), "c": nil}}
		buf := make([]byte, 4096)
		r := try(func() (int, error) { return frugal.EncodeObject(buf, nil, v) })
		if r.pan != nil || r.err != nil {
			return fmt.Sprintf("EncodeObject: %v %v", r.pan, r.err)
		}
		got := &T{}
		if _, err := frugal.DecodeObject(buf[:r.n], got); err != nil {
			return "decode of own encoding: " + err.Error()
		}
		if len(got.M) != 3 || string(got.M["a"]) != "xy" || string(got.M["b"]) != "z" {
			return fmt.Sprintf("round trip gives %v", got.M)
		}
		return ""
	},
	"D4": func() string {
		type T struct {
			P **Inner `frugal:"1,optional,Inner"`
		}
		r := try(func() (int, error) { return frugal.EncodeObject(make([]byte, 64), nil, &T{}) })
		if r.pan != nil {
			return fmt.Sprintf("EncodeObject panics instead of returning an error: %v", r.pan)
		}
		if r.err == nil {
			return "pointer to pointer accepted"
		}
		return ""
	},
	"D6": func() string {
		type T struct {
			M map[int32]Inner `frugal:"1,default,map<i32:Inner>"`
		}
		// hand-written message: entry 1 sets field 2 ("zz"), entry 2 omits it
		msg := []byte{13, 0, 1, 8, 12, 0, 0, 0, 2,
			0, 0, 0, 1, 8, 0, 1, 0, 0, 0, 9, 11, 0, 2, 0, 0, 0, 2, 'z', 'z', 0,
			0, 0, 0, 2, 8, 0, 1, 0, 0, 0, 7, 0,
			0}
		got := &T{}
		if _, err := frugal.DecodeObject(msg, got); err != nil {
			return err.Error()
		}
		if got.M[2].B != nil {
			return fmt.Sprintf("entry 2 omits field 2 but decodes with B=%q (left over from entry 1)", *got.M[2].B)
		}
		return ""
	},
	"D7": func() string {
		type T struct {
			L *[]int32 `frugal:"1,optional,list<i32>"`
		}
		l := []int32{1, 2, 3}
		r := try(func() (int, error) { return frugal.EncodeObject(make([]byte, 64), nil, &T{L: &l}) })
		if r.pan != nil {
			return fmt.Sprintf("panic: %v", r.pan)
		}
		if r.err == nil {
			return "pointer to list accepted"
		}
		return ""
	},
	"D8": func() string {
		type T struct {
			S string `frugal:"1,default,string"`
		}
		big := make([]byte, 64)
		for i := range big {
			big[i] = 0xA5
		}
		_, err := frugal.EncodeObject(big[:5], nil, &T{S: "0123456789"})
		if err == nil {
			return "short buffer accepted"
		}
		for i := 5; i < len(big); i++ {
			if big[i] != 0xA5 {
				return fmt.Sprintf("byte %d beyond len(buf)=5 was overwritten", i)
			}
		}
		return ""
	},
	"D9": func() string {
		r := try(func() (int, error) { return frugal.EncodeObject(make([]byte, 8), nil, nil) })
		if r.pan != nil {
			return fmt.Sprintf("EncodeObject(nil value) panics: %v", r.pan)
		}
		if r.err == nil {
			return "nil accepted"
		}
		return ""
	},
	"D10": func() string {
		type T struct {
			M map[float64]int32 `frugal:"1,default,map<double:i32>"`
		}
		for _, n := range []int{27, 28, 53, 105, 109} {
			v := &T{M: map[float64]int32{}}
			for i := 0; i < n; i++ {
				v.M[float64(i)+0.25] = int32(i)
			}
			r := try(func() (int, error) { return frugal.EncodeObject(make([]byte, 8192), nil, v) })
			if r.pan != nil || r.err != nil {
				return fmt.Sprintf("map<double:i32> with %d entries: %v %v", n, r.pan, r.err)
			}
		}
		return ""
	},
}

type d5A struct {
	X     int32  `frugal:"1,default,i32"`
	Other []*d5B `frugal:"3,optional,list<d5B>"`
	Leaf  *d5Bad `frugal:"4,optional,d5Bad"`
}
type d5Bad struct {
	Bad uint32 `frugal:"1,default,i32"`
}
type d5B struct {
	X     int32  `frugal:"1,default,i32"`
	Other []*d5A `frugal:"3,optional,list<d5A>"`
}

func init() {
	cases["D5"] = func() string {
		buf := make([]byte, 100)
		for i := 0; i < 3; i++ {
			r := try(func() (int, error) { return frugal.EncodeObject(buf, nil, &d5B{X: 1, Other: []*d5A{{X: 2}}}) })
			if r.pan != nil {
				return fmt.Sprintf("call %d panics: %v", i+1, r.pan)
			}
			if r.err == nil {
				return fmt.Sprintf("call %d accepts a type from which an invalid definition is reachable (n=%d); the first call rejected it", i+1, r.n)
			}
		}
		return ""
	}
	cases["D11"] = func() string {
		type T struct {
			A int32 `frugal:"65535,default,i32"`
		}
		r := try(func() (int, error) { return frugal.EncodeObject(make([]byte, 16), nil, &T{A: 1}) })
		if r.pan != nil || r.err != nil {
			return fmt.Sprintf("struct with field id 65535: %v %v", r.pan, r.err)
		}
		return ""
	}
	cases["D12"] = func() string {
		type T struct {
			A int64 `frugal:"1,default,i64"`
		}
		in := []byte{2, 0, 1, 0xff, 0xff, 0xff, 0xff, 0xff, 0xff, 0xff, 0xff, 0}
		r := try(func() (int, error) { return frugal.DecodeObject(in, &T{}) })
		if r.pan != nil {
			return fmt.Sprintf("DecodeObject panics on a corrupted type byte: %v", r.pan)
		}
		if r.err == nil {
			return "corrupted input accepted"
		}
		return ""
	}
}

var _ = reflect.TypeOf

func main() {
	names := os.Args[1:]
	if len(names) == 0 {
		for k := range cases {
			names = append(names, k)
		}
	}
	if len(names) == 1 && strings.HasPrefix(names[0], "=") {
		// child: run one case
		k := names[0][1:]
		if msg := cases[k](); msg != "" {
			fmt.Printf("%s FAIL: %s\n", k, msg)
			os.Exit(1)
		}
		fmt.Printf("%s ok\n", k)
		return
	}
	bad := 0
	for _, k := range names {
		if cases[k] == nil {
			fmt.Println("unknown case", k)
			continue
		}
		// each case in its own process (some defects are fatal errors), address space capped
		cmd := exec.Command("sh", "-c", "ulimit -v 8000000; exec \"$0\" =\"$1\"", os.Args[0], k)
		out, err := cmd.CombinedOutput()
		s := strings.TrimSpace(string(out))
		if len(s) > 400 {
			s = s[:400] + "…"
		}
		if err != nil {
			bad++
			if !strings.Contains(s, "FAIL") {
				s = k + " FAIL (process died): " + s
			}
		}
		fmt.Println(s)
	}
	if bad > 0 {
		os.Exit(1)
	}
}
