package ref

import (
	"encoding/binary"
	"math"
)

type ErrClass int

const (
	EOK ErrClass = iota
	ETruncated
	ENegative
	EExceeds
	EMismatch
	EBadType
	EDepth
	ERequired
)

var errNames = [...]string{"ok", "truncated", "negative-size", "size-exceeds-input", "element-type-mismatch", "bad-type-code", "depth", "required-missing"}

func (e ErrClass) String() string { return errNames[e] }

// DecResult is what the reference decoder says about (schema, bytes, prior).
type DecResult struct {
	OK      bool
	N       int      // bytes consumed through the top-level STOP (when OK or only Missing)
	V       *Val     // destination after decoding (when OK)
	Err     ErrClass // first structural error met in wire order (EOK if none)
	ErrOff  int
	Missing []string // Go names of required fields lacking in some struct occurrence, in wire order
	OddBool bool     // a bool byte outside {0,1} was stored: value comparison is not meaningful
	// Unpinned: the input is accepted only thanks to a leniency no property pins
	// (an EMPTY skipped container carrying an invalid element type code):
	// rejecting it is not a violation either.
	Unpinned         bool
	DupByValueStruct bool // a by-value struct field/entry occurred twice: merge-vs-reset not pinned
	MaxKnownDepth    int  // deepest nesting of schema-parsed values
}

type DecOpts struct {
	SkipDepth int // nesting bound for skipped values (dependency's skipper: 64); 0 = 64
	MaxDepth  int // bound for schema-parsed nesting; 0 = unbounded
	// OnPos, when set, is told the offset of every length, count, type code and
	// field id the schema-driven parse reads (kinds: ftype, fid, strlen, etype,
	// count, ktype, vtype).
	OnPos func(kind string, off int)
	// IgnoreRequired: lacking required fields are recorded in Missing but do not reject the message
	// (used to read back encodings of values holding nil pointers to structs with required fields).
	IgnoreRequired bool
}

type decoder struct {
	b    []byte
	res  *DecResult
	opts DecOpts
}

type decErr struct {
	c   ErrClass
	off int
}

// Decode decodes b as a message for s on top of prior (nil = zero struct).
func Decode(s *Struct, b []byte, prior *Val, opts DecOpts) *DecResult {
	if opts.SkipDepth == 0 {
		opts.SkipDepth = 64
	}
	res := &DecResult{}
	d := &decoder{b: b, res: res, opts: opts}
	var dst *Val
	if prior == nil {
		dst = ZeroStruct(s)
	} else {
		dst = prior.Clone()
	}
	n, e := d.structBody(s, 0, dst, 1)
	if e != nil {
		res.Err, res.ErrOff = e.c, e.off
		return res
	}
	res.N = n
	if len(res.Missing) > 0 && !opts.IgnoreRequired {
		res.Err = ERequired
		return res
	}
	res.OK = true
	res.V = dst
	return res
}

func (d *decoder) structBody(s *Struct, i int, dst *Val, depth int) (int, *decErr) {
	b := d.b
	if depth > d.res.MaxKnownDepth {
		d.res.MaxKnownDepth = depth
	}
	if d.opts.MaxDepth > 0 && depth > d.opts.MaxDepth {
		return i, &decErr{EDepth, i}
	}
	seen := make([]int, len(s.Fields))
	var unk []byte
	for {
		if i >= len(b) {
			return i, &decErr{ETruncated, i}
		}
		tp := b[i]
		if tp == WStop {
			i++
			break
		}
		if i+3 > len(b) {
			return i, &decErr{ETruncated, i}
		}
		id := binary.BigEndian.Uint16(b[i+1:])
		if d.opts.OnPos != nil {
			d.opts.OnPos("ftype", i)
			d.opts.OnPos("fid", i+1)
		}
		var f *Field
		fi := -1
		for k, x := range s.Fields {
			if x.ID == id {
				f, fi = x, k
				break
			}
		}
		if f == nil || f.Type.Kind.Wire() != tp {
			n, e := d.skip(i+3, tp, d.opts.SkipDepth)
			if e != nil {
				return i, e
			}
			if s.Unknown {
				unk = append(unk, b[i:i+3+n]...)
			}
			i += 3 + n
			continue
		}
		seen[fi]++
		var cur *Val
		if f.Type.Kind == KStruct && !f.Type.Ptr {
			if seen[fi] > 1 {
				d.res.DupByValueStruct = true
			}
			cur = dst.F[fi] // by-value struct field: decoded in place
		}
		v, n, e := d.value(f.Type, i+3, cur, depth)
		if e != nil {
			return i, e
		}
		dst.F[fi] = v
		i = n
	}
	for k, f := range s.Fields {
		if f.Req == ReqRequired && seen[k] == 0 {
			d.res.Missing = append(d.res.Missing, f.Name)
		}
	}
	if s.Unknown && len(unk) > 0 {
		dst.Unk = unk
	}
	return i, nil
}

// value decodes one value of type t at offset i.  cur is the value to decode
// onto for by-value structs (nil = freshly created).
func (d *decoder) value(t *Type, i int, cur *Val, depth int) (*Val, int, *decErr) {
	b := d.b
	if w := t.Kind.FixedWidth(); w > 0 {
		if i+w > len(b) {
			return nil, i, &decErr{ETruncated, i}
		}
		v := &Val{K: t.Kind}
		switch t.Kind {
		case KBool:
			v.U = uint64(b[i])
			if b[i] > 1 {
				d.res.OddBool = true
			}
		case KI8:
			v.U = uint64(int64(int8(b[i])))
		case KI16:
			v.U = uint64(int64(int16(binary.BigEndian.Uint16(b[i:]))))
		case KI32, KEnum:
			v.U = uint64(int64(int32(binary.BigEndian.Uint32(b[i:]))))
		case KI64, KDouble:
			v.U = binary.BigEndian.Uint64(b[i:])
		}
		return v, i + w, nil
	}
	switch t.Kind {
	case KString, KBinary:
		if i+4 > len(b) {
			return nil, i, &decErr{ETruncated, i}
		}
		l := int(int32(binary.BigEndian.Uint32(b[i:])))
		if d.opts.OnPos != nil {
			d.opts.OnPos("strlen", i)
		}
		if l < 0 {
			return nil, i, &decErr{ENegative, i}
		}
		if l > len(b)-i-4 {
			return nil, i, &decErr{EExceeds, i}
		}
		return &Val{K: t.Kind, B: append([]byte{}, b[i+4:i+4+l]...)}, i + 4 + l, nil
	case KList, KSet:
		if i+5 > len(b) {
			return nil, i, &decErr{ETruncated, i}
		}
		et := b[i]
		l := int(int32(binary.BigEndian.Uint32(b[i+1:])))
		if d.opts.OnPos != nil {
			d.opts.OnPos("etype", i)
			d.opts.OnPos("count", i+1)
		}
		if l < 0 {
			return nil, i, &decErr{ENegative, i}
		}
		if et != t.Elem.Kind.Wire() {
			return nil, i, &decErr{EMismatch, i}
		}
		if l > len(b)-i-5 {
			return nil, i, &decErr{EExceeds, i}
		}
		v := &Val{K: t.Kind, L: make([]*Val, 0, l)}
		j := i + 5
		for k := 0; k < l; k++ {
			e, n, err := d.value(t.Elem, j, nil, depth+1)
			if err != nil {
				return nil, j, err
			}
			v.L = append(v.L, e)
			j = n
		}
		return v, j, nil
	case KMap:
		if i+6 > len(b) {
			return nil, i, &decErr{ETruncated, i}
		}
		kt, vt := b[i], b[i+1]
		l := int(int32(binary.BigEndian.Uint32(b[i+2:])))
		if d.opts.OnPos != nil {
			d.opts.OnPos("ktype", i)
			d.opts.OnPos("vtype", i+1)
			d.opts.OnPos("count", i+2)
		}
		if l < 0 {
			return nil, i, &decErr{ENegative, i}
		}
		if kt != t.Key.Kind.Wire() || vt != t.Elem.Kind.Wire() {
			return nil, i, &decErr{EMismatch, i}
		}
		if l > len(b)-i-6 {
			return nil, i, &decErr{EExceeds, i}
		}
		v := &Val{K: KMap, M: make([][2]*Val, 0, l)}
		j := i + 6
		for k := 0; k < l; k++ {
			kv, n, err := d.value(t.Key, j, nil, depth+1)
			if err != nil {
				return nil, j, err
			}
			vv, n2, err := d.value(t.Elem, n, nil, depth+1)
			if err != nil {
				return nil, n, err
			}
			j = n2
			dup := false
			if !t.Key.Ptr {
				for x := range v.M {
					if keyEqual(v.M[x][0], kv) {
						v.M[x] = [2]*Val{kv, vv}
						dup = true
						break
					}
				}
			}
			if !dup {
				v.M = append(v.M, [2]*Val{kv, vv})
			}
		}
		return v, j, nil
	case KStruct:
		if cur == nil {
			cur = InitStruct(t.St)
		} else if t.St.HasInit {
			// the initialiser of the harness' static types rewrites every field
			cur = InitStruct(t.St)
		}
		n, err := d.structBody(t.St, i, cur, depth+1)
		if err != nil {
			return nil, i, err
		}
		return cur, n, nil
	}
	panic("bad kind")
}

// keyEqual is Go's == on map keys of scalar / string kind.
func keyEqual(a, b *Val) bool {
	switch a.K {
	case KDouble:
		return math.Float64frombits(a.U) == math.Float64frombits(b.U)
	case KString:
		return string(a.B) == string(b.B)
	}
	return a.U == b.U
}

// skip validates one value of wire type tp at offset i without a schema and
// returns its length.  It follows the skipping rules of DESIGN.md Appendix B.3.
func (d *decoder) skip(i int, tp byte, maxdepth int) (int, *decErr) {
	b := d.b
	if w := wireWidth(tp); w > 0 {
		if i+w > len(b) {
			return 0, &decErr{ETruncated, i}
		}
		return w, nil
	}
	switch tp {
	case WString:
		if i+4 > len(b) {
			return 0, &decErr{ETruncated, i}
		}
		l := int(int32(binary.BigEndian.Uint32(b[i:])))
		if l < 0 {
			return 0, &decErr{ENegative, i}
		}
		if l > len(b)-i-4 {
			return 0, &decErr{ETruncated, i}
		}
		return 4 + l, nil
	case WList, WSet:
		if maxdepth == 0 {
			return 0, &decErr{EDepth, i}
		}
		if i+5 > len(b) {
			return 0, &decErr{ETruncated, i}
		}
		et := b[i]
		l := int(int32(binary.BigEndian.Uint32(b[i+1:])))
		if l < 0 {
			return 0, &decErr{ENegative, i}
		}
		j := i + 5
		if l == 0 && !validWire(et) {
			d.res.Unpinned = true
		}
		if w := wireWidth(et); w > 0 {
			if l*w > len(b)-j {
				return 0, &decErr{ETruncated, i}
			}
			return 5 + l*w, nil
		}
		for k := 0; k < l; k++ {
			n, e := d.skipElem(j, et, maxdepth-1)
			if e != nil {
				return 0, e
			}
			j += n
		}
		return j - i, nil
	case WMap:
		if maxdepth == 0 {
			return 0, &decErr{EDepth, i}
		}
		if i+6 > len(b) {
			return 0, &decErr{ETruncated, i}
		}
		kt, vt := b[i], b[i+1]
		l := int(int32(binary.BigEndian.Uint32(b[i+2:])))
		if l < 0 {
			return 0, &decErr{ENegative, i}
		}
		j := i + 6
		if l == 0 && (!validWire(kt) || !validWire(vt)) {
			d.res.Unpinned = true
		}
		kw, vw := wireWidth(kt), wireWidth(vt)
		if kw > 0 && vw > 0 {
			if l*(kw+vw) > len(b)-j {
				return 0, &decErr{ETruncated, i}
			}
			return 6 + l*(kw+vw), nil
		}
		for k := 0; k < l; k++ {
			n, e := d.skipElem(j, kt, maxdepth-1)
			if e != nil {
				return 0, e
			}
			j += n
			n, e = d.skipElem(j, vt, maxdepth-1)
			if e != nil {
				return 0, e
			}
			j += n
		}
		return j - i, nil
	case WStruct:
		if maxdepth == 0 {
			return 0, &decErr{EDepth, i}
		}
		j := i
		for {
			if j >= len(b) {
				return 0, &decErr{ETruncated, j}
			}
			ft := b[j]
			if ft == WStop {
				return j + 1 - i, nil
			}
			if j+3 > len(b) {
				return 0, &decErr{ETruncated, j}
			}
			n, e := d.skipElem(j+3, ft, maxdepth-1)
			if e != nil {
				return 0, e
			}
			j += 3 + n
		}
	}
	return 0, &decErr{EBadType, i}
}

// skipElem skips a nested value: running out of input takes precedence over a
// bad type code only in so far as both are errors (class is not pinned).
func (d *decoder) skipElem(i int, tp byte, maxdepth int) (int, *decErr) {
	if i >= len(d.b) {
		return 0, &decErr{ETruncated, i}
	}
	return d.skip(i, tp, maxdepth)
}
