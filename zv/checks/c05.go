package checks

import (
	"encoding/binary"
	"fmt"

	"github.com/cloudwego/frugal/zverif/explore"
	"github.com/cloudwego/frugal/zverif/harness"
	"github.com/cloudwego/frugal/zverif/hooks"
	"github.com/cloudwego/frugal/zverif/ref"
	"github.com/cloudwego/frugal/zverif/universe"
)

func mk(fields ...*ref.Field) *ref.Struct { return &ref.Struct{Fields: fields} }
func fd(id uint16, req ref.Req, t *ref.Type) *ref.Field {
	return &ref.Field{ID: id, Req: req, Type: t}
}
func ptrTo(t *ref.Type) *ref.Type { c := *t; c.Ptr = true; return &c }

// decodeFamily: ~40 destination types covering every decode branch.
func decodeFamily() *family {
	return cached("decode", func() *family {
		f := &family{name: "decode"}
		sc := universe.Sc
		D, R, O := ref.ReqDefault, ref.ReqRequired, ref.ReqOptional
		lf := universe.Leaf()
		reqSt := mk(fd(1, R, sc(ref.KI32)), fd(2, O, ptrTo(sc(ref.KString))))
		add := func(s *ref.Struct) { f.items = append(f.items, s) }
		for _, k := range universe.S9 {
			add(mk(fd(1, D, sc(k))))
		}
		add(mk(fd(1, O, ptrTo(sc(ref.KI32))), fd(2, O, ptrTo(sc(ref.KString)))))
		nc := mk(fd(1, D, sc(ref.KString)), fd(2, D, sc(ref.KBinary)), fd(3, O, ptrTo(sc(ref.KString))))
		nc.Fields[0].NoCopy, nc.Fields[1].NoCopy, nc.Fields[2].NoCopy = true, true, true
		add(nc)
		add(mk(fd(1, R, sc(ref.KI32)), fd(2, O, sc(ref.KString)), fd(64, R, sc(ref.KBool))))
		add(mk(fd(1, D, universe.StPtr(reqSt)), fd(2, D, sc(ref.KI8))))
		add(mk(fd(1, D, universe.StPtr(lf))))
		add(mk(fd(1, D, universe.StVal(lf)), fd(2, O, universe.StVal(reqSt))))
		for _, e := range []*ref.Type{sc(ref.KI16), sc(ref.KString), sc(ref.KBool), universe.StPtr(lf), universe.StVal(lf), universe.ListOf(sc(ref.KI32)), universe.MapOf(sc(ref.KI8), sc(ref.KString))} {
			add(mk(fd(1, D, universe.ListOf(e))))
		}
		add(mk(fd(1, D, universe.SetOf(sc(ref.KI64))), fd(2, O, universe.SetOf(sc(ref.KBinary)))))
		for _, kv := range [][2]*ref.Type{
			{sc(ref.KI32), sc(ref.KString)}, {sc(ref.KString), sc(ref.KI64)}, {sc(ref.KBool), universe.StPtr(lf)}, {sc(ref.KI16), universe.StVal(lf)},
			{universe.StPtr(lf), sc(ref.KI8)}, {sc(ref.KDouble), universe.ListOf(sc(ref.KI32))}, {sc(ref.KI64), universe.MapOf(sc(ref.KString), sc(ref.KBool))},
			{sc(ref.KEnum), sc(ref.KBinary)}, {sc(ref.KString), universe.StPtr(reqSt)}} {
			add(mk(fd(1, D, universe.MapOf(kv[0], kv[1]))))
		}
		u1 := mk(fd(1, D, sc(ref.KI32)))
		u1.Unknown = true
		add(u1)
		u2 := mk(fd(2, D, universe.ListOf(sc(ref.KString))), fd(5, R, sc(ref.KI16)))
		u2.Unknown = true
		add(u2)
		add(mk(fd(255, D, sc(ref.KI64)), fd(256, O, sc(ref.KString))))
		return f
	})
}

// writerFor returns a writer schema producing messages with extra (unknown to
// the reader) fields of several wire types around the reader's fields.
func messagesFor(s *ref.Struct, tier universe.Tier, maxLen, maxCount int) [][]byte {
	var out [][]byte
	seen := map[string]bool{}
	for _, v := range valuesOf(s, tier) {
		m := ref.Encode(s, v)
		if len(m) > maxLen || seen[string(m)] {
			continue
		}
		seen[string(m)] = true
		out = append(out, m)
	}
	// longest first would bias; keep enumeration order but spread: take evenly
	if len(out) > maxCount {
		step := float64(len(out)) / float64(maxCount)
		var sel [][]byte
		for i := 0; i < maxCount; i++ {
			sel = append(sel, out[int(float64(i)*step)])
		}
		out = sel
	}
	// plus: the same message with one unknown field of each of several types, in front and at the back
	// (a reader must skip them; truncations inside them exercise the skipper's bounds)
	if len(out) > 0 {
		base := out[len(out)/2]
		body := base[:len(base)-1] // without the STOP
		for _, u := range unknownBlocks() {
			front := append(append(append([]byte{}, u...), body...), 0)
			back := append(append(append([]byte{}, body...), u...), 0)
			out = append(out, front, back)
		}
	}
	return out
}

var unkBlocks [][]byte

// unknownBlocks: single encoded fields (header + value) with ids no reader of the family knows.
func unknownBlocks() [][]byte {
	if unkBlocks != nil {
		return unkBlocks
	}
	sc := universe.Sc
	lf := universe.Leaf()
	types := []*ref.Type{
		sc(ref.KI32), sc(ref.KBinary), universe.ListOf(sc(ref.KString)), universe.MapOf(sc(ref.KI8), universe.StPtr(lf)), universe.MapOf(sc(ref.KString), sc(ref.KI64)),
		universe.MapOf(universe.StPtr(lf), sc(ref.KBool)), universe.SetOf(sc(ref.KDouble)), universe.StPtr(lf), universe.MapOf(sc(ref.KString), universe.ListOf(sc(ref.KI64))),
		universe.ListOf(universe.MapOf(sc(ref.KString), sc(ref.KI16))),
	}
	for i, t := range types {
		st := mk(fd(uint16(0x7f00+i), ref.ReqDefault, t))
		v := &ref.Val{K: ref.KStruct, F: []*ref.Val{c11Fill(t, 2+i)}}
		m := ref.Encode(st, v)
		unkBlocks = append(unkBlocks, m[:len(m)-1])
	}
	return unkBlocks
}

var c05Symbols = []byte{0, 1, 2, 3, 4, 6, 8, 10, 11, 12, 13, 14, 15, 16, 0x7f, 0x80, 0xff}

func c05Small() []*ref.Struct {
	sc := universe.Sc
	D, R := ref.ReqDefault, ref.ReqRequired
	a := mk(fd(1, D, sc(ref.KI32)), fd(2, D, sc(ref.KString)))
	b := mk(fd(1, D, universe.ListOf(sc(ref.KI16))))
	c := mk(fd(1, D, universe.MapOf(sc(ref.KI8), sc(ref.KString))))
	d := mk(fd(1, D, universe.StPtr(mk(fd(1, D, sc(ref.KI64))))), fd(2, R, sc(ref.KBool)))
	e := mk(fd(1, D, universe.SetOf(sc(ref.KBinary))), fd(3, D, universe.ListOf(universe.StVal(mk(fd(1, D, sc(ref.KI8)))))))
	e.Unknown = true
	return []*ref.Struct{a, b, c, d, e}
}

var c05SmallTypes = c05Small()

func init() {
	harness.Register(&harness.Check{
		ID:          "C05",
		Level:       "model_checking",
		Explanation: "Bounded exhaustive enumeration (E1) of malformed inputs against the real DecodeObject: every strict prefix, every single-byte substitution, every length/count rewrite, all short byte strings over a 17-symbol alphabet, and all splices; input placed right before an inaccessible page; allocation measured per call; verdict compared with the reference validator.",
		Assumptions: []string{"go1.23.5 toolchain", "well-formedness is Appendix B of DESIGN.md as implemented by zv/ref", "time proportional to input is checked as work: allocation bound per call plus worker watchdog; no wall-clock oracle", "unbounded random / coverage-guided fuzzing (named in the property's quantifier) is sampling and is not claimed"},
		Phases: func(tier universe.Tier) []*harness.Phase {
			return []*harness.Phase{
				{Name: "prefixes", Rule: "decode family (40 types) x alphabet messages <= 600 bytes x every strict prefix; one explorer execution = one message, all its prefixes", Body: func(c *explore.C) { c05Prefix(c, tier) }},
				{Name: "substitutions", Rule: "decode family x up to 6 messages <= 96 bytes x every offset x all 255 other byte values; one execution = one offset", Body: func(c *explore.C) { c05Subst(c, tier) }},
				{Name: "rewrites", Rule: "decode family x messages x every length/count position x 12 boundary 32-bit values, every type-code position x codes 0..17,0xff", Body: func(c *explore.C) { c05Rewrite(c, tier) }},
				{Name: "allstrings", Rule: "5 small destination types x ALL byte strings of length <= L over 17 symbols (L=5 quick, 7 thorough); one execution = the 289 strings sharing a prefix", Body: func(c *explore.C) { c05All(c, tier) }},
				{Name: "splices", Rule: "prefix of message A + suffix of message B at all cut-point pairs for message pairs of the same and of different types", Body: func(c *explore.C) { c05Splice(c, tier) }},
			}
		},
	})
}

func c05Report(c *explore.C, s *ref.Struct, msg []byte, v *decodeVerdict, how string) {
	c.Fail(v.Msg+" ["+how+"]", mkCase("C05", v.Class, s, nil, msg, v.detail()))
}

var c05Opts = decodeOpts{Guard: true, AllocBound: true}

func pickMsg(c *explore.C, tier universe.Tier, maxLen, maxCount int) (*ref.Struct, []byte) {
	fam := decodeFamily()
	ti := c.Choose(len(fam.items), explore.Data, "type")
	s := fam.items[ti]
	msgs := messagesFor(s, tier, maxLen, maxCount)
	mi := c.Choose(len(msgs), explore.Data, "message")
	return s, msgs[mi]
}

func c05Prefix(c *explore.C, tier universe.Tier) {
	s, msg := pickMsg(c, tier, 600, 60)
	harness.Cur.Crumb(c.Choices())
	hooks.Reset()
	for cut := 0; cut < len(msg); cut++ {
		v := decodeAndCompare(s, msg[:cut], c05Opts)
		if v.Class == "" && v.Res.Err == nil {
			// a strict prefix that is itself well-formed (fields after a STOP byte value …) is possible; the reference agreed
			harness.Cur.Count("prefixes_wellformed", 1)
		}
		if v.Class != "" {
			c05Report(c, s, msg[:cut], v, fmt.Sprintf("prefix of length %d of a %d-byte valid message", cut, len(msg)))
			return
		}
	}
	harness.Cur.Evals(int64(len(msg)))
	harness.Cur.Outcome(harness.Hash64(msg), "prefixes")
	harness.Cur.Sample(func() interface{} {
		return map[string]string{"type": s.String(), "message": hx(msg), "what": "every strict prefix"}
	})
}

func c05Subst(c *explore.C, tier universe.Tier) {
	s, msg := pickMsg(c, tier, 96, 6)
	off := c.Choose(len(msg), explore.Data, "offset")
	harness.Cur.Crumb(c.Choices())
	hooks.Reset()
	m := append([]byte{}, msg...)
	acc := 0
	for b := 0; b < 256; b++ {
		if byte(b) == msg[off] {
			continue
		}
		m[off] = byte(b)
		v := decodeAndCompare(s, m, c05Opts)
		if v.Class != "" {
			c05Report(c, s, m, v, fmt.Sprintf("byte %d of a valid message changed %02x -> %02x", off, msg[off], b))
			return
		}
		if v.Res.Err == nil {
			acc++
		}
	}
	harness.Cur.Evals(255)
	harness.Cur.Count("substitutions_still_wellformed", int64(acc))
	harness.Cur.Outcome(harness.Hash64(msg, []byte{byte(off)}, []byte{byte(acc)}), fmt.Sprintf("accepted=%d", acc*10/256))
	harness.Cur.Sample(func() interface{} {
		return map[string]interface{}{"type": s.String(), "message": hx(msg), "offset": off, "what": "all 255 substitutions", "still_wellformed": acc}
	})
}

var lenRewrites = []int64{-1, -1 << 31, 0, 1, 255, 256, 65536, 1 << 24, 1<<31 - 1}

func c05Rewrite(c *explore.C, tier universe.Tier) {
	s, msg := pickMsg(c, tier, 300, 12)
	type pos struct {
		kind string
		off  int
	}
	var ps []pos
	ref.Decode(s, msg, nil, ref.DecOpts{OnPos: func(k string, o int) { ps = append(ps, pos{k, o}) }})
	if len(ps) == 0 {
		ps = append(ps, pos{"none", 0})
	}
	pi := c.Choose(len(ps), explore.Data, "position")
	harness.Cur.Crumb(c.Choices())
	hooks.Reset()
	p := ps[pi]
	m := append([]byte{}, msg...)
	n := 0
	try := func(how string) bool {
		n++
		v := decodeAndCompare(s, m, c05Opts)
		if v.Class != "" {
			c05Report(c, s, m, v, how)
			return false
		}
		return true
	}
	switch p.kind {
	case "strlen", "count":
		orig := int64(int32(binary.BigEndian.Uint32(msg[p.off:])))
		vals := append([]int64{orig - 1, orig + 1, 2 * orig}, lenRewrites...)
		for _, x := range vals {
			binary.BigEndian.PutUint32(m[p.off:], uint32(x))
			if !try(fmt.Sprintf("%s at offset %d rewritten %d -> %d", p.kind, p.off, orig, int32(x))) {
				return
			}
		}
	case "ftype", "etype", "ktype", "vtype":
		for code := 0; code <= 18; code++ {
			b := byte(code)
			if code == 18 {
				b = 0xff
			}
			m[p.off] = b
			if !try(fmt.Sprintf("%s at offset %d rewritten %d -> %d", p.kind, p.off, msg[p.off], b)) {
				return
			}
		}
	case "fid":
		orig := binary.BigEndian.Uint16(msg[p.off:])
		for _, x := range []uint16{0, orig - 1, orig + 1, 0x7fff, 0x8000, 0xffff} {
			binary.BigEndian.PutUint16(m[p.off:], x)
			if !try(fmt.Sprintf("field id at offset %d rewritten %d -> %d", p.off, orig, x)) {
				return
			}
		}
	default:
		try("unmodified")
	}
	harness.Cur.Evals(int64(n))
	harness.Cur.Outcome(harness.Hash64(msg, []byte(p.kind), []byte{byte(p.off)}), p.kind)
	harness.Cur.Sample(func() interface{} {
		return map[string]interface{}{"type": s.String(), "message": hx(msg), "position": p.kind, "offset": p.off}
	})
}

func c05All(c *explore.C, tier universe.Tier) {
	L := 5
	if tier == universe.Thorough {
		L = 7
	}
	ns := len(c05Symbols)
	// first choice: (type, total length) so that sharding spreads; then the leading symbols
	first := c.Choose(len(c05SmallTypes)*(L+1), explore.Data, "type,length")
	s := c05SmallTypes[first%len(c05SmallTypes)]
	length := first / len(c05SmallTypes)
	lead := length - 2
	if lead < 0 {
		lead = 0
	}
	buf := make([]byte, length)
	for i := 0; i < lead; i++ {
		buf[i] = c05Symbols[c.Choose(ns, explore.Data, "symbol")]
	}
	harness.Cur.Crumb(c.Choices())
	hooks.Reset()
	// batch: all completions of the last (up to two) positions
	tail := length - lead
	total := 1
	for i := 0; i < tail; i++ {
		total *= ns
	}
	acc := 0
	for k := 0; k < total; k++ {
		x := k
		for i := 0; i < tail; i++ {
			buf[lead+i] = c05Symbols[x%ns]
			x /= ns
		}
		v := decodeAndCompare(s, buf, c05Opts)
		if v.Class != "" {
			c05Report(c, s, append([]byte{}, buf...), v, fmt.Sprintf("byte string of length %d", length))
			return
		}
		if v.Res.Err == nil {
			acc++
		}
	}
	harness.Cur.Evals(int64(total))
	harness.Cur.Count("strings_accepted_as_wellformed", int64(acc))
	harness.Cur.Outcome(harness.Hash64(buf[:lead], []byte{byte(first), byte(acc)}), fmt.Sprintf("len=%d", length))
	if acc > 0 {
		harness.Cur.Sample(func() interface{} {
			return map[string]interface{}{"type": s.String(), "length": length, "leading_bytes": hx(buf[:lead]), "accepted_completions": acc}
		})
	}
}

func c05Splice(c *explore.C, tier universe.Tier) {
	fam := decodeFamily()
	// 20 message pairs: (type i, type i) and (type i, type i+7)
	np := 20
	if tier == universe.Thorough {
		np = 2 * len(fam.items)
	}
	pi := c.Choose(np, explore.Data, "pair")
	ai := (pi / 2 * 3) % len(fam.items)
	bi := ai
	if pi%2 == 1 {
		bi = (ai + 7) % len(fam.items)
	}
	sa, sb := fam.items[ai], fam.items[bi]
	ma := messagesFor(sa, tier, 60, 4)
	mb := messagesFor(sb, tier, 60, 4)
	a := ma[len(ma)-2%len(ma)]
	if len(ma) >= 2 {
		a = ma[len(ma)-2]
	}
	b := mb[len(mb)/2]
	cut := c.Choose(len(a)+1, explore.Data, "cutA")
	harness.Cur.Crumb(c.Choices())
	hooks.Reset()
	for cb := 0; cb <= len(b); cb++ {
		m := append(append([]byte{}, a[:cut]...), b[cb:]...)
		v := decodeAndCompare(sa, m, c05Opts)
		if v.Class != "" {
			c05Report(c, sa, m, v, fmt.Sprintf("splice of A[:%d] + B[%d:]", cut, cb))
			return
		}
	}
	harness.Cur.Evals(int64(len(b) + 1))
	harness.Cur.Outcome(harness.Hash64(a, b, []byte{byte(cut)}), "splice")
	harness.Cur.Sample(func() interface{} {
		return map[string]interface{}{"type": sa.String(), "A": hx(a), "B": hx(b), "cutA": cut}
	})
}
