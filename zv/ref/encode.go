package ref

import (
	"bytes"
	"encoding/binary"
	"math"
	"sort"
)

// Omitted reports whether the encoder must omit field f holding fv (the
// omission rule of the property statements, see DESIGN.md §2.4).
func Omitted(s *Struct, f *Field, fv *Val) bool {
	if f.Req != ReqOptional {
		return false
	}
	if fv == nil {
		return true
	}
	switch f.Type.Kind {
	case KBinary, KList, KSet, KMap:
		if fv.Nil {
			return true
		}
	}
	if s.HasInit && !f.Type.Ptr && f.Type.Kind.IsScalarish() && f.Default != nil {
		return DefaultEqual(f.Default, fv)
	}
	return false
}

// DefaultEqual is Go's == on the scalar, byte equality for string/binary.
func DefaultEqual(a, b *Val) bool {
	switch a.K {
	case KDouble:
		return math.Float64frombits(a.U) == math.Float64frombits(b.U)
	case KString, KBinary:
		return bytes.Equal(a.B, b.B)
	}
	return a.U == b.U
}

// Encode returns the Thrift Binary encoding of struct value v under schema s.
// Map entries are written sorted by their encoded bytes (canonical form).
func Encode(s *Struct, v *Val) []byte {
	return encStruct(nil, s, v)
}

func encStruct(b []byte, s *Struct, v *Val) []byte {
	if v == nil {
		return append(b, WStop)
	}
	for i, f := range s.Fields {
		fv := v.F[i]
		if Omitted(s, f, fv) {
			continue
		}
		b = append(b, f.Type.Kind.Wire(), byte(f.ID>>8), byte(f.ID))
		b = encVal(b, f.Type, fv)
	}
	if s.Unknown {
		b = append(b, v.Unk...)
	}
	return append(b, WStop)
}

func encVal(b []byte, t *Type, v *Val) []byte {
	switch t.Kind {
	case KBool:
		if v.U != 0 {
			return append(b, 1)
		}
		return append(b, 0)
	case KI8:
		return append(b, byte(v.U))
	case KI16:
		return binary.BigEndian.AppendUint16(b, uint16(v.U))
	case KI32, KEnum:
		return binary.BigEndian.AppendUint32(b, uint32(v.U))
	case KI64, KDouble:
		return binary.BigEndian.AppendUint64(b, v.U)
	case KString, KBinary:
		b = binary.BigEndian.AppendUint32(b, uint32(len(v.B)))
		return append(b, v.B...)
	case KStruct:
		return encStruct(b, t.St, v)
	case KList, KSet:
		b = append(b, t.Elem.Kind.Wire())
		b = binary.BigEndian.AppendUint32(b, uint32(len(v.L)))
		for _, e := range v.L {
			b = encVal(b, t.Elem, e)
		}
		return b
	case KMap:
		b = append(b, t.Key.Kind.Wire(), t.Elem.Kind.Wire())
		b = binary.BigEndian.AppendUint32(b, uint32(len(v.M)))
		ents := make([][]byte, len(v.M))
		for i, e := range v.M {
			x := encVal(nil, t.Key, e[0])
			ents[i] = encVal(x, t.Elem, e[1])
		}
		sort.Slice(ents, func(i, j int) bool { return bytes.Compare(ents[i], ents[j]) < 0 })
		for _, e := range ents {
			b = append(b, e...)
		}
		return b
	}
	panic("bad kind")
}

// EncodeOrdered is Encode with the top-level fields written in the given order
// of indices into s.Fields (omission rule still applied) - used to produce
// messages with permuted field order.
func EncodeOrdered(s *Struct, v *Val, order []int) []byte {
	var b []byte
	for _, i := range order {
		f := s.Fields[i]
		fv := v.F[i]
		if Omitted(s, f, fv) {
			continue
		}
		b = append(b, f.Type.Kind.Wire(), byte(f.ID>>8), byte(f.ID))
		b = encVal(b, f.Type, fv)
	}
	if s.Unknown {
		b = append(b, v.Unk...)
	}
	return append(b, WStop)
}

// EncodeValue encodes a bare value of type t (no field header).
func EncodeValue(t *Type, v *Val) []byte { return encVal(nil, t, v) }

// EncodeWith is Encode with a caller-chosen field order per struct type:
// order(st) returns a permutation of indices into st.Fields (nil = ascending).
func EncodeWith(s *Struct, v *Val, order func(st *Struct) []int) []byte {
	e := &orderedEnc{order: order}
	return e.structBody(nil, s, v)
}

type orderedEnc struct {
	order func(st *Struct) []int
}

func (e *orderedEnc) structBody(b []byte, s *Struct, v *Val) []byte {
	if v == nil {
		return append(b, WStop)
	}
	ord := e.order(s)
	if ord == nil {
		ord = make([]int, len(s.Fields))
		for i := range ord {
			ord[i] = i
		}
	}
	for _, i := range ord {
		f := s.Fields[i]
		fv := v.F[i]
		if Omitted(s, f, fv) {
			continue
		}
		b = append(b, f.Type.Kind.Wire(), byte(f.ID>>8), byte(f.ID))
		b = e.val(b, f.Type, fv)
	}
	if s.Unknown {
		b = append(b, v.Unk...)
	}
	return append(b, WStop)
}

func (e *orderedEnc) val(b []byte, t *Type, v *Val) []byte {
	switch t.Kind {
	case KStruct:
		return e.structBody(b, t.St, v)
	case KList, KSet:
		b = append(b, t.Elem.Kind.Wire())
		b = binary.BigEndian.AppendUint32(b, uint32(len(v.L)))
		for _, x := range v.L {
			b = e.val(b, t.Elem, x)
		}
		return b
	case KMap:
		b = append(b, t.Key.Kind.Wire(), t.Elem.Kind.Wire())
		b = binary.BigEndian.AppendUint32(b, uint32(len(v.M)))
		for _, x := range v.M {
			b = e.val(b, t.Key, x[0])
			b = e.val(b, t.Elem, x[1])
		}
		return b
	}
	return encVal(b, t, v)
}
