#!/bin/sh
# usage: check.sh <property id> [--tier quick|thorough] [--replay file]
# Regenerates the build overlay from /repo's current working tree, rebuilds the
# checker against it (hooks on: -tags verif) in a private scratch directory,
# runs it and removes the scratch directory.
# VERIF_REPO=<dir> checks a scratch copy of the repository instead (used to
# demonstrate detection on deliberately broken trees); VERIF_OUT=<dir> then
# receives evidence/ and replays/ so that /verif's own files stay untouched.
set -u
export GOFLAGS=-mod=mod GOPROXY=off GOSUMDB=off GOTOOLCHAIN=local
V=${VERIF_DIR:-/verif}
R=${VERIF_REPO:-/repo}
ID=${1:-}
T=$(mktemp -d "${TMPDIR:-/var/tmp}/verif-XXXXXX") || exit 3
trap 'rm -rf "$T"' EXIT INT TERM
cd "$V/zv" || exit 3
MODFLAG=""
if [ "$R" != /repo ]; then
  sed "s|=> /repo\$|=> $R|" go.mod >"$T/go.mod" && cp go.sum "$T/go.sum"
  MODFLAG="-modfile=$T/go.mod"
fi
case "$ID" in
  C17|C18)
    # subject = the unmodified production build: no overlay, no tags
    if ! go build $MODFLAG -o "$T/verifplain" ./cmd/verifplain >"$T/build.log" 2>&1; then
      cat "$T/build.log"; echo "HARNESS-ERROR: build of the plain checker against $R failed"; exit 3
    fi
    VERIF_DIR="$V" "$T/verifplain" "$@"
    exit $? ;;
esac
(go build -o "$T/overlaygen" ./cmd/overlaygen && "$T/overlaygen" -repo "$R" -verif "$V" -out "$T" >"$T/overlaygen.log" 2>&1) || { cat "$T/overlaygen.log" 2>/dev/null; echo "HARNESS-ERROR: overlay generation failed"; exit 3; }
# first choice: with the component export hook (tag verife3); if the internal API it wraps changed, without it
TAGS="verif verife3"
if ! go build $MODFLAG -tags "$TAGS" -overlay "$T/overlay.json" -o "$T/verifcheck" ./cmd/verifcheck >"$T/build.log" 2>&1; then
  TAGS="verif"
  if ! go build $MODFLAG -tags "$TAGS" -overlay "$T/overlay.json" -o "$T/verifcheck" ./cmd/verifcheck >"$T/build2.log" 2>&1; then
    cat "$T/build.log" "$T/build2.log"
    echo "HARNESS-ERROR: build of the checker against $R failed"
    exit 3
  fi
  echo "note: component export hook does not compile against this tree; component (E3) phases are unavailable"
fi
case "$ID" in
  C08|C06)
    # the same checker with the race detector (scheduler hand-offs invisible to it)
    if go build $MODFLAG -race -gcflags=all=-d=checkptr=0 -tags "$TAGS" -overlay "$T/overlay.json" -o "$T/verifcheck-race" ./cmd/verifcheck >"$T/build-race.log" 2>&1; then
      export VERIF_RACE_BIN="$T/verifcheck-race"
    else
      cat "$T/build-race.log"; echo "note: race-detector build failed; race phases will be skipped"
    fi ;;
esac
VERIF_DIR="$V" "$T/verifcheck" "$@"
exit $?
