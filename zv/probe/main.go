package main

import (
	"fmt"
	_ "github.com/anishathalye/porcupine"
	_ "github.com/apache/thrift/lib/go/thrift"
	"github.com/cloudwego/frugal"
	_ "github.com/cloudwego/gopkg/protocol/thrift"
)

type T struct {
	A int32 `frugal:"1,default,i32"`
}

func main() {
	b := make([]byte, 100)
	n, err := frugal.EncodeObject(b, nil, &T{5})
	fmt.Println(n, err, b[:n])
}
