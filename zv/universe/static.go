package universe

// R is the recursive type of the depth checks (C15) and of the recursive
// round trips: every way of nesting a struct inside itself.
type R struct {
	S  *R           `frugal:"1,optional,R"`
	L  []*R         `frugal:"2,optional,list<R>"`
	T  []*R         `frugal:"3,optional,set<R>"`
	MV map[int32]*R `frugal:"4,optional,map<i32:R>"`
	MK map[*R]int32 `frugal:"5,optional,map<R:i32>"`
	LL [][]*R       `frugal:"6,optional,list<list<R>>"`
	X  int32        `frugal:"7,optional,i32"`
}

// RU is R's sibling that does not know field ids >= 90: nested data placed
// under id 99 is skipped as an unknown field.
type RU struct {
	X int32 `frugal:"7,optional,i32"`
}

// Named is a named struct (same shape as the leaf struct) for struct-name
// matching and package-qualified annotations.
type Named struct {
	A int32   `frugal:"1,default,i32"`
	B *string `frugal:"2,optional,string"`
}

// Emb is embedded (anonymous field) into generated structs as a decoy: its
// tagged field must never reach the wire.
type Emb struct {
	EX int32 `frugal:"78,default,i32"`
}
