package ref

import (
	"bytes"
	"encoding/binary"
	"fmt"
	"sort"
)

// WNode is a schema-less parse tree of Thrift Binary data.
type WNode struct {
	T      byte     // wire type of this value
	Raw    []byte   // scalar bytes / string content
	KT, VT byte     // element type codes of containers
	Elems  []*WNode // list/set elements; map entries flattened k0,v0,k1,v1…
	Fields []WField // struct fields in wire order
}

type WField struct {
	T   byte
	ID  uint16
	V   *WNode
	Off int // offset of the field header in the enclosing parse input
	End int // offset just past the value
}

type WireError struct {
	Off int
	Msg string
}

func (e *WireError) Error() string { return fmt.Sprintf("wire parse error at %d: %s", e.Off, e.Msg) }

// ParseStruct parses one struct from b strictly (every count, length and STOP
// is checked; unknown type codes are errors even in empty containers) and
// returns the tree and the number of bytes consumed.
func ParseStruct(b []byte) (*WNode, int, error) {
	p := &wparser{b: b}
	n, err := p.value(0, WStruct, 0)
	if err != nil {
		return nil, p.errOff, err
	}
	return n, p.end, nil
}

type wparser struct {
	b      []byte
	end    int
	errOff int
}

func (p *wparser) fail(off int, f string, a ...interface{}) error {
	p.errOff = off
	return &WireError{off, fmt.Sprintf(f, a...)}
}

func validWire(t byte) bool {
	switch t {
	case WBool, WByte, WDouble, WI16, WI32, WI64, WString, WStruct, WMap, WSet, WList:
		return true
	}
	return false
}

func wireWidth(t byte) int {
	switch t {
	case WBool, WByte:
		return 1
	case WI16:
		return 2
	case WI32:
		return 4
	case WI64, WDouble:
		return 8
	}
	return 0
}

func (p *wparser) value(i int, t byte, depth int) (*WNode, error) {
	b := p.b
	if depth > 4096 {
		return nil, p.fail(i, "too deep")
	}
	if w := wireWidth(t); w > 0 {
		if i+w > len(b) {
			return nil, p.fail(i, "truncated scalar")
		}
		p.end = i + w
		return &WNode{T: t, Raw: b[i : i+w]}, nil
	}
	switch t {
	case WString:
		if i+4 > len(b) {
			return nil, p.fail(i, "truncated string length")
		}
		l := int(int32(binary.BigEndian.Uint32(b[i:])))
		if l < 0 {
			return nil, p.fail(i, "negative string length")
		}
		if i+4+l > len(b) {
			return nil, p.fail(i, "string exceeds input")
		}
		p.end = i + 4 + l
		return &WNode{T: t, Raw: b[i+4 : i+4+l]}, nil
	case WList, WSet:
		if i+5 > len(b) {
			return nil, p.fail(i, "truncated list header")
		}
		et := b[i]
		l := int(int32(binary.BigEndian.Uint32(b[i+1:])))
		if !validWire(et) {
			return nil, p.fail(i, "bad element type %d", et)
		}
		if l < 0 {
			return nil, p.fail(i, "negative count")
		}
		if l > len(b)-i {
			return nil, p.fail(i, "count exceeds input")
		}
		n := &WNode{T: t, VT: et}
		j := i + 5
		for k := 0; k < l; k++ {
			e, err := p.value(j, et, depth+1)
			if err != nil {
				return nil, err
			}
			n.Elems = append(n.Elems, e)
			j = p.end
		}
		p.end = j
		return n, nil
	case WMap:
		if i+6 > len(b) {
			return nil, p.fail(i, "truncated map header")
		}
		kt, vt := b[i], b[i+1]
		l := int(int32(binary.BigEndian.Uint32(b[i+2:])))
		if !validWire(kt) || !validWire(vt) {
			return nil, p.fail(i, "bad map type codes %d %d", kt, vt)
		}
		if l < 0 {
			return nil, p.fail(i, "negative count")
		}
		if l > len(b)-i {
			return nil, p.fail(i, "count exceeds input")
		}
		n := &WNode{T: t, KT: kt, VT: vt}
		j := i + 6
		for k := 0; k < l; k++ {
			e, err := p.value(j, kt, depth+1)
			if err != nil {
				return nil, err
			}
			n.Elems = append(n.Elems, e)
			e, err = p.value(p.end, vt, depth+1)
			if err != nil {
				return nil, err
			}
			n.Elems = append(n.Elems, e)
			j = p.end
		}
		p.end = j
		return n, nil
	case WStruct:
		n := &WNode{T: t}
		j := i
		for {
			if j >= len(b) {
				return nil, p.fail(j, "missing STOP")
			}
			ft := b[j]
			if ft == WStop {
				p.end = j + 1
				return n, nil
			}
			if !validWire(ft) {
				return nil, p.fail(j, "bad field type %d", ft)
			}
			if j+3 > len(b) {
				return nil, p.fail(j, "truncated field header")
			}
			id := binary.BigEndian.Uint16(b[j+1:])
			v, err := p.value(j+3, ft, depth+1)
			if err != nil {
				return nil, err
			}
			n.Fields = append(n.Fields, WField{T: ft, ID: id, V: v, Off: j, End: p.end})
			j = p.end
		}
	}
	return nil, p.fail(i, "bad type code %d", t)
}

// Bytes re-serialises the node; with canon, map entries are sorted by their
// serialised bytes so that two encodings equal up to map-entry order give the
// same result.
func (n *WNode) Bytes(canon bool) []byte { return n.ser(nil, canon) }

func (n *WNode) ser(b []byte, canon bool) []byte {
	switch n.T {
	case WString:
		b = binary.BigEndian.AppendUint32(b, uint32(len(n.Raw)))
		return append(b, n.Raw...)
	case WList, WSet:
		b = append(b, n.VT)
		b = binary.BigEndian.AppendUint32(b, uint32(len(n.Elems)))
		for _, e := range n.Elems {
			b = e.ser(b, canon)
		}
		return b
	case WMap:
		b = append(b, n.KT, n.VT)
		b = binary.BigEndian.AppendUint32(b, uint32(len(n.Elems)/2))
		ents := make([][]byte, 0, len(n.Elems)/2)
		for i := 0; i+1 < len(n.Elems); i += 2 {
			x := n.Elems[i].ser(nil, canon)
			x = n.Elems[i+1].ser(x, canon)
			ents = append(ents, x)
		}
		if canon {
			sort.Slice(ents, func(i, j int) bool { return bytes.Compare(ents[i], ents[j]) < 0 })
		}
		for _, e := range ents {
			b = append(b, e...)
		}
		return b
	case WStruct:
		for _, f := range n.Fields {
			b = append(b, f.T, byte(f.ID>>8), byte(f.ID))
			b = f.V.ser(b, canon)
		}
		return append(b, WStop)
	}
	return append(b, n.Raw...)
}

// Canonical parses b as exactly one struct and returns its canonical bytes.
func Canonical(b []byte) ([]byte, error) {
	n, end, err := ParseStruct(b)
	if err != nil {
		return nil, err
	}
	if end != len(b) {
		return nil, &WireError{end, fmt.Sprintf("%d trailing bytes", len(b)-end)}
	}
	return n.Bytes(true), nil
}

// Depth returns the container/struct nesting depth of the tree.
func (n *WNode) Depth() int {
	d := 0
	for _, e := range n.Elems {
		if x := e.Depth(); x > d {
			d = x
		}
	}
	for _, f := range n.Fields {
		if x := f.V.Depth(); x > d {
			d = x
		}
	}
	switch n.T {
	case WStruct, WList, WSet, WMap:
		return d + 1
	}
	return d
}
