//go:build verif

// Package hooks is the harness' view of the verif build of frugal: state
// reset, environment (pool) choices and the cooperative scheduler.
package hooks

import (
	freflect "github.com/cloudwego/frugal/internal/reflect"
	"github.com/cloudwego/frugal/internal/verifshim/sched"
	"github.com/cloudwego/frugal/zverif/explore"
)

// Reset puts frugal into the state of a fresh process (caches, pools, scratch).
func Reset() { freflect.VerifReset() }

// chooser adapts the E1 explorer to the scheduler's Chooser interface.
type chooser struct{ c *explore.C }

func (a chooser) Sched(n int, preempt bool, label string) int {
	if preempt {
		return a.c.Choose(n, explore.Dev, "sched:"+label)
	}
	return a.c.Choose(n, explore.Data, "sched:"+label)
}

func (a chooser) Env(n int, label string) int { return a.c.Choose(n, explore.Dev, "env:"+label) }

// WithEnv routes environment choices (which pooled object a Pool.Get returns)
// of sequential code to the explorer for the duration of f.
func WithEnv(c *explore.C, f func()) {
	sched.SetEnv(chooser{c})
	defer sched.SetEnv(nil)
	f()
}

// RunThreads runs bodies as cooperative threads, every interleaving decision
// being asked from the explorer.
func RunThreads(c *explore.C, horizon int, trace bool, onPoint func(label string), bodies ...func()) *sched.Run {
	var op func(r *sched.Run, label string)
	if onPoint != nil {
		op = func(r *sched.Run, label string) { onPoint(label) }
	}
	return sched.Go(chooser{c}, horizon, trace, op, bodies...)
}

// IsAbort reports whether a recovered panic belongs to the scheduler.
func IsAbort(p interface{}) bool { return sched.IsAbort(p) }
