package checks

import (
	"errors"
	"fmt"

	gthrift "github.com/cloudwego/gopkg/protocol/thrift"

	"github.com/cloudwego/frugal/zverif/explore"
	"github.com/cloudwego/frugal/zverif/harness"
	"github.com/cloudwego/frugal/zverif/hooks"
	"github.com/cloudwego/frugal/zverif/ref"
	"github.com/cloudwego/frugal/zverif/universe"
)

// Phase "required-kinds": the required field ranges over every field form (each is decoded by a
// different routine: fixed-size, string, zero-copy string, container, struct, named types ...).

type c09Form struct {
	name string
	t    func() *ref.Type
	nc   bool
}

func c09Forms() []c09Form {
	var out []c09Form
	for _, t := range universe.Reduced14() {
		t := t
		out = append(out, c09Form{t.String(), func() *ref.Type { c := *t; return &c }, false})
	}
	sc := universe.Sc
	out = append(out,
		c09Form{"string,nocopy", func() *ref.Type { return sc(ref.KString) }, true},
		c09Form{"binary,nocopy", func() *ref.Type { return sc(ref.KBinary) }, true},
		c09Form{"named string", func() *ref.Type { return &ref.Type{Kind: ref.KString, Named: true} }, false},
		c09Form{"named string,nocopy", func() *ref.Type { return &ref.Type{Kind: ref.KString, Named: true} }, true},
		c09Form{"named i64", func() *ref.Type { return &ref.Type{Kind: ref.KI64, Named: true} }, false},
		c09Form{"list<*struct>", func() *ref.Type { return universe.ListOf(universe.StPtr(universe.Leaf())) }, false},
		c09Form{"map<i32:struct>", func() *ref.Type { return universe.MapOf(sc(ref.KI32), universe.StVal(universe.LeafFixed())) }, false},
		c09Form{"struct with holder", func() *ref.Type { return universe.StVal(universe.LeafHolder()) }, false},
		c09Form{"list<enum>", func() *ref.Type { return universe.ListOf(sc(ref.KEnum)) }, false},
		c09Form{"set<double>", func() *ref.Type { return universe.SetOf(sc(ref.KDouble)) }, false},
	)
	return out
}

func c09Kinds(c *explore.C, tier universe.Tier) {
	forms := c09Forms()
	fi := c.Choose(len(forms), explore.Data, "required-field-form")
	other := c.Choose(3, explore.Data, "other-fields") // 0: none, 1: default i32 before + default string after, 2: required i32 after
	pos := []string{"top", "list*", "mapval", "field"}[c.Choose(4, explore.Data, "position")]
	variant := c.Choose(4, explore.Data, "message") // 0 complete, 1 the required field absent, 2 wrong wire type, 3 present twice
	holder := c.Bool(explore.Data, "unknown-fields-holder")
	harness.Cur.Crumb(c.Choices())
	hooks.Reset()
	f := forms[fi]
	core := &ref.Struct{Unknown: holder}
	D, R := ref.ReqDefault, ref.ReqRequired
	rf := fd(5, R, f.t())
	rf.NoCopy = f.nc
	switch other {
	case 0:
		core.Fields = []*ref.Field{rf}
	case 1:
		core.Fields = []*ref.Field{fd(1, D, universe.Sc(ref.KI32)), rf, fd(9, D, universe.Sc(ref.KString))}
	case 2:
		core.Fields = []*ref.Field{rf, fd(64, R, universe.Sc(ref.KI32))}
	}
	outer, build := c09Wrap(core, pos)
	universe.StructGoType(outer)
	// the writer: same ids, everything optional; the required field possibly retyped / duplicated
	w := &ref.Struct{}
	ri := 0
	for i, cf := range core.Fields {
		t := *cf.Type
		if cf == rf {
			ri = i
			if variant == 2 {
				t = *universe.Sc(ref.KI64)
				if cf.Type.Kind == ref.KI64 {
					t = *universe.Sc(ref.KBool)
				}
			}
		}
		if t.Kind != ref.KStruct || t.Ptr {
			t.Ptr = t.Kind.IsScalarish() || t.Kind == ref.KStruct
		}
		w.Fields = append(w.Fields, &ref.Field{ID: cf.ID, Req: ref.ReqOptional, Type: &t, Name: cf.Name})
	}
	mkv := func(salt int) *ref.Val {
		v := &ref.Val{K: ref.KStruct, F: make([]*ref.Val, len(w.Fields))}
		for i, wf := range w.Fields {
			if i == ri && variant == 1 {
				if wf.Type.Kind == ref.KList || wf.Type.Kind == ref.KSet || wf.Type.Kind == ref.KMap || wf.Type.Kind == ref.KBinary {
					v.F[i] = ref.NilOf(wf.Type.Kind)
				}
				continue
			}
			v.F[i] = universe.Nth(wf.Type, salt+i)
		}
		return v
	}
	wouter := retarget(outer, core, w)
	msg := ref.Encode(wouter, build(mkv(1), mkv(4)))
	if variant == 3 {
		// the required field occurs twice in the (first) struct occurrence: still present
		w2 := &ref.Struct{}
		for _, wf := range w.Fields {
			w2.Fields = append(w2.Fields, wf)
		}
		dup := *w.Fields[ri]
		w2.Fields = append(w2.Fields, &dup)
		v := mkv(1)
		v.F = append(v.F, universe.Nth(dup.Type, 9))
		v2 := mkv(4)
		var absent *ref.Val
		switch dup.Type.Kind {
		case ref.KList, ref.KSet, ref.KMap, ref.KBinary:
			absent = ref.NilOf(dup.Type.Kind)
		}
		v2.F = append(v2.F, absent)
		msg = ref.Encode(retarget(outer, core, w2), build(v, v2))
	}
	how := fmt.Sprintf("required field form %s, other fields %d, position %s, message variant %d, holder=%v", f.name, other, pos, variant, holder)
	dv := decodeAndCompare(outer, msg, decodeOpts{Guard: true})
	if dv.Class != "" {
		c.Fail(dv.Msg+" ["+how+"]", mkCase("C09", dv.Class, outer, nil, msg, dv.detail()))
		return
	}
	if (variant == 0 || variant == 3) && !dv.Exp.OK {
		panic("harness error: reference rejects a complete message: " + how + " " + dv.Exp.Err.String())
	}
	if (variant == 1 || variant == 2) && dv.Exp.OK {
		panic("harness error: reference accepts a message lacking the required field: " + how)
	}
	if !dv.Exp.OK && dv.Exp.Err == ref.ERequired {
		var pe *gthrift.ProtocolException
		if !errors.As(dv.Res.Err, &pe) || pe.TypeID() != gthrift.INVALID_DATA {
			c.Fail(fmt.Sprintf("missing required field reported with the wrong error kind: %v [%s]", dv.Res.Err, how), mkCase("C09", "wrong-error-kind", outer, nil, msg, dv.detail()))
			return
		}
		named := false
		for _, n := range dv.Exp.Missing {
			named = named || namesField(pe.Error(), n)
		}
		if !named {
			c.Fail(fmt.Sprintf("required-field error %q names none of the lacking fields %v [%s]", pe.Error(), dv.Exp.Missing, how), mkCase("C09", "wrong-field-named", outer, nil, msg, dv.detail()))
			return
		}
	}
	harness.Cur.Outcome(harness.Hash64(msg, []byte(outer.String())), fmt.Sprintf("%s/variant%d", pos, variant))
	harness.Cur.Sample(func() interface{} {
		return map[string]interface{}{"type": outer.String(), "message": hx(msg), "how": how}
	})
}
