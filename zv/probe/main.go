package main

import (
	"fmt"

	"github.com/cloudwego/frugal"
)

type A struct {
	X     int32 `frugal:"1,default,i32"`
	Other []*B  `frugal:"3,optional,list<B>"`
	Leaf  *ABad `frugal:"4,optional,ABad"`
}
type ABad struct {
	Bad uint32 `frugal:"1,default,i32"`
}
type B struct {
	X     int32 `frugal:"1,default,i32"`
	Other []*A  `frugal:"3,optional,list<A>"`
}

func main() {
	buf := make([]byte, 100)
	for i := 0; i < 3; i++ {
		n, err := frugal.EncodeObject(buf, nil, &B{X: 1, Other: []*A{{X: 2}}})
		fmt.Println("B:", n, err)
	}
	func() {
		defer func() { fmt.Println("recovered:", recover()) }()
		n, err := frugal.EncodeObject(buf, nil, &B{X: 1, Other: []*A{{X: 2, Leaf: &ABad{3}}}})
		fmt.Println("B with leaf:", n, err)
	}()
}
