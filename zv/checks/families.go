package checks

import (
	"sync"

	"github.com/cloudwego/frugal/zverif/ref"
	"github.com/cloudwego/frugal/zverif/universe"
)

// A family is an indexed list of struct specs; Go types are built lazily.
type family struct {
	name  string
	items []*ref.Struct
}

var famCache sync.Map

func cached(key string, f func() *family) *family {
	if v, ok := famCache.Load(key); ok {
		return v.(*family)
	}
	x := f()
	famCache.Store(key, x)
	return x
}

// singles: one field of every type of T(depth) in every legal shell, id 1.
func singles(depth int) *family {
	return cached("singles"+string(rune('0'+depth)), func() *family {
		f := &family{name: "single-field"}
		for _, t := range universe.T(depth) {
			for _, sh := range universe.Shells(t) {
				f.items = append(f.items, universe.One(t, sh, 1))
			}
		}
		return f
	})
}

// idFamily: the reduced alphabet at every boundary id, plus the unknown-fields holder variants.
func idFamily() *family {
	return cached("ids", func() *family {
		f := &family{name: "boundary-ids"}
		for _, t := range universe.Reduced14() {
			for _, id := range universe.IDs {
				if id > 40000 && t.Kind != ref.KI32 && t.Kind != ref.KString {
					continue // ids near 65535 cost 512 KB of descriptor index each: bounded sub-family
				}
				f.items = append(f.items, universe.One(t, universe.FieldShell{Req: ref.ReqDefault}, id))
			}
			s := universe.One(t, universe.FieldShell{Req: ref.ReqDefault}, 3)
			s.Unknown = true
			f.items = append(f.items, s)
		}
		// holder structs nested inside holder structs (the usual layout of generated code that keeps unknown fields)
		lh := universe.LeafHolder()
		for _, t := range []*ref.Type{universe.StPtr(lh), universe.StVal(lh), universe.ListOf(universe.StPtr(lh)), universe.ListOf(universe.StVal(lh)),
			universe.MapOf(universe.Sc(ref.KString), universe.StVal(lh)), universe.MapOf(universe.Sc(ref.KI32), universe.StPtr(lh))} {
			s := universe.One(t, universe.FieldShell{Req: ref.ReqDefault}, 3)
			s.Unknown = true
			f.items = append(f.items, s)
		}
		return f
	})
}

var idPairs = [][2]uint16{{1, 2}, {63, 64}, {255, 256}, {0, 32767}}

// pairs: two fields over the reduced alphabet x all requiredness pairs x boundary id pairs.
func pairs(tier universe.Tier) *family {
	return cached("pairs", func() *family {
		f := &family{name: "two-field"}
		reqs := []ref.Req{ref.ReqDefault, ref.ReqRequired, ref.ReqOptional}
		al := universe.Reduced14()
		for ai := range al {
			for bi := range al {
				for _, ra := range reqs {
					for _, rb := range reqs {
						for pi, ids := range idPairs {
							if pi > 0 && (ai+bi+int(ra)+int(rb))%len(idPairs) != pi {
								continue // boundary id pairs are spread over the matrix (each type pair sees (1,2) and one other)
							}
							a, b := *al[ai], *al[bi]
							f.items = append(f.items, &ref.Struct{DeclReversed: (ai+bi+int(ra))%2 == 1, Fields: []*ref.Field{
								{ID: ids[0], Req: ra, Type: &a}, {ID: ids[1], Req: rb, Type: &b}}})
						}
					}
				}
			}
		}
		return f
	})
}

// triples: three fields over the 6-form alphabet, requiredness rotating.
func triples() *family {
	return cached("triples", func() *family {
		f := &family{name: "three-field"}
		al := universe.Reduced6()
		reqs := []ref.Req{ref.ReqDefault, ref.ReqRequired, ref.ReqOptional}
		for ai := range al {
			for bi := range al {
				for ci := range al {
					for r := 0; r < 3; r++ {
						a, b, c := *al[ai], *al[bi], *al[ci]
						f.items = append(f.items, &ref.Struct{DeclReversed: (ai+ci)%2 == 1, Fields: []*ref.Field{
							{ID: 1, Req: reqs[r], Type: &a}, {ID: 64, Req: reqs[(r+1)%3], Type: &b}, {ID: 300, Req: reqs[(r+2)%3], Type: &c}}})
					}
				}
			}
		}
		return f
	})
}

// depth4: selected types with three container levels.
func depth4Types() []*ref.Type {
	sc := universe.Sc
	var r []*ref.Type
	outers := []func(*ref.Type) *ref.Type{universe.ListOf, universe.SetOf, func(e *ref.Type) *ref.Type { return universe.MapOf(sc(ref.KI32), e) }}
	mids := []func(*ref.Type) *ref.Type{universe.ListOf, universe.SetOf, func(e *ref.Type) *ref.Type { return universe.MapOf(sc(ref.KString), e) }}
	inners := []*ref.Type{universe.ListOf(sc(ref.KI32)), universe.SetOf(sc(ref.KString)), universe.ListOf(universe.StPtr(universe.Leaf()))}
	for _, o := range outers {
		for _, m := range mids {
			for _, in := range inners {
				r = append(r, o(m(in)))
			}
		}
	}
	return r
}

func depth4() *family {
	return cached("depth4", func() *family {
		f := &family{name: "depth-4"}
		for _, t := range depth4Types() {
			f.items = append(f.items, universe.One(t, universe.FieldShell{Req: ref.ReqDefault}, 1))
		}
		return f
	})
}

// wide: structs with many fields (40 fields over all forms, sparse ids; 300 scalar fields with ids 1..300).
func wide() *family {
	return cached("wide", func() *family {
		f := &family{name: "wide"}
		al := universe.Reduced14()
		reqs := []ref.Req{ref.ReqDefault, ref.ReqOptional, ref.ReqRequired}
		for variant := 0; variant < 3; variant++ {
			s := &ref.Struct{Unknown: variant == 2, DeclReversed: variant == 1}
			for i := 0; i < 40; i++ {
				t := *al[(i+variant)%len(al)]
				req := reqs[(i+variant)%3]
				if req != ref.ReqOptional && t.Ptr && t.Kind != ref.KStruct {
					req = ref.ReqOptional
				}
				s.Fields = append(s.Fields, &ref.Field{ID: uint16(1 + i*7 + variant*50), Req: req, Type: &t})
			}
			f.items = append(f.items, s)
		}
		for variant := 0; variant < 2; variant++ {
			s := &ref.Struct{}
			for i := 0; i < 70; i++ {
				t := *al[(i*5+variant)%len(al)]
				req := reqs[(i+variant)%3]
				if i >= 62 {
					req = ref.ReqOptional // nil-able optional fields on both sides of the 64th field
				}
				s.Fields = append(s.Fields, &ref.Field{ID: uint16(1 + i*3), Req: req, Type: &t})
			}
			f.items = append(f.items, s)
		}
		big := &ref.Struct{}
		for i := 0; i < 300; i++ {
			k := universe.S9[i%len(universe.S9)]
			big.Fields = append(big.Fields, &ref.Field{ID: uint16(1 + i), Req: reqs[i%2], Type: universe.Sc(k)})
		}
		f.items = append(f.items, big)
		return f
	})
}

// idSweep: one i32 field at EVERY id 0..4200 and at every power of two +-1 up to 65535 (thresholds of
// any id-indexed table), alternately default / required / optional-pointer.
func idSweep() *family {
	return cached("idsweep", func() *family {
		f := &family{name: "id-sweep"}
		seen := map[uint16]bool{}
		add := func(id uint16) {
			if seen[id] {
				return
			}
			seen[id] = true
			sh := []universe.FieldShell{{Req: ref.ReqDefault}, {Req: ref.ReqRequired}, {Req: ref.ReqOptional, Ptr: true}}[int(id)%3]
			f.items = append(f.items, universe.One(universe.Sc(ref.KI32), sh, id))
		}
		for id := 0; id <= 4200; id++ {
			add(uint16(id))
		}
		for k := 12; k <= 16; k++ {
			for d := -1; d <= 1; d++ {
				if v := (1 << k) + d; v >= 0 && v <= 65535 {
					add(uint16(v))
				}
			}
		}
		return f
	})
}

// denseIDs: every id subset of {0..4} with 2-4 members (field-count/max-id coincidences, id 0 with gaps).
func denseIDs() *family {
	return cached("dense", func() *family {
		f := &family{name: "small-id-sets"}
		kinds := []ref.Kind{ref.KI32, ref.KString, ref.KBool, ref.KI64}
		for mask := 1; mask < 32; mask++ {
			var ids []uint16
			for b := 0; b < 5; b++ {
				if mask&(1<<b) != 0 {
					ids = append(ids, uint16(b))
				}
			}
			if len(ids) < 2 || len(ids) > 4 {
				continue
			}
			s := &ref.Struct{}
			for i, id := range ids {
				s.Fields = append(s.Fields, &ref.Field{ID: id, Req: ref.ReqDefault, Type: universe.Sc(kinds[i])})
			}
			f.items = append(f.items, s)
		}
		return f
	})
}

// shells: an intermediate struct (all fields required / all default / required + optional, with and
// without the unknown-fields holder) around a leaf struct held by value or by pointer, itself held
// in every position the decoder creates or reuses structs in (map values decoded into a reused
// temporary, list elements, fields).  Exercises "every field is rewritten anyway" shortcuts.
func shells() *family {
	return cached("shells", func() *family {
		f := &family{name: "struct-shells"}
		sc := universe.Sc
		inners := []func() *ref.Type{
			func() *ref.Type { return universe.StVal(universe.Leaf()) },
			func() *ref.Type { return universe.StPtr(universe.Leaf()) },
			func() *ref.Type { return universe.StVal(universe.LeafHolder()) },
		}
		reqs := [][2]ref.Req{{ref.ReqRequired, ref.ReqRequired}, {ref.ReqDefault, ref.ReqDefault}, {ref.ReqRequired, ref.ReqOptional}}
		for ii, in := range inners {
			for ri, rq := range reqs {
				for _, holder := range []bool{false, true} {
					if holder && !(ri == 0 && ii == 0) {
						continue
					}
					mkV := func() *ref.Struct {
						second := sc(ref.KI32)
						if rq[1] == ref.ReqOptional {
							second = &ref.Type{Kind: ref.KI32, Ptr: true}
						}
						v := &ref.Struct{Unknown: holder, Fields: []*ref.Field{{ID: 1, Req: rq[0], Type: in()}, {ID: 2, Req: rq[1], Type: second}}}
						return v
					}
					for _, t := range []*ref.Type{
						universe.MapOf(sc(ref.KI32), universe.StVal(mkV())), universe.MapOf(sc(ref.KI32), universe.StPtr(mkV())),
						universe.ListOf(universe.StVal(mkV())), universe.ListOf(universe.StPtr(mkV())),
						universe.StVal(mkV()), universe.StPtr(mkV()), universe.MapOf(sc(ref.KString), universe.ListOf(universe.StVal(mkV()))),
					} {
						sh := universe.FieldShell{Req: ref.ReqDefault}
						if t.Ptr {
							sh.Req = ref.ReqOptional
						}
						f.items = append(f.items, universe.One(t, sh, 1))
					}
				}
			}
		}
		return f
	})
}

// goInts: fields whose Go type is the platform int - a plain int as i64, and a hand-written enum
// (named int) annotated with its own name (i32 on the wire, 8 bytes in memory) or as i64.
func goInts() *family {
	return cached("goints", func() *family {
		f := &family{name: "go-int"}
		sc := universe.Sc
		bases := []func() *ref.Type{
			func() *ref.Type { return &ref.Type{Kind: ref.KI64, GoInt: true} },
			func() *ref.Type { return &ref.Type{Kind: ref.KEnum, GoInt: true} },
			func() *ref.Type { return &ref.Type{Kind: ref.KI64, GoInt: true, Named: true} },
		}
		for _, b := range bases {
			forms := []*ref.Type{b(), universe.ListOf(b()), universe.SetOf(b()), universe.MapOf(b(), sc(ref.KString)), universe.MapOf(sc(ref.KI16), b()),
				universe.MapOf(b(), b()), universe.ListOf(universe.ListOf(b()))}
			for _, t := range forms {
				for _, sh := range universe.Shells(t) {
					f.items = append(f.items, universe.One(t, sh, 1))
				}
			}
			p := b()
			p.Ptr = true
			f.items = append(f.items, universe.One(p, universe.FieldShell{Req: ref.ReqOptional}, 2))
		}
		// the same named int type as enum in one field and as i64 in the next
		f.items = append(f.items, &ref.Struct{Fields: []*ref.Field{{ID: 1, Req: ref.ReqDefault, Type: bases[1]()}, {ID: 2, Req: ref.ReqDefault, Type: bases[2]()}, {ID: 3, Req: ref.ReqDefault, Type: universe.ListOf(bases[1]())}}})
		return f
	})
}

// codecFamilies is the type space shared by C01, C02, C04, C16 and C18.
func codecFamilies(tier universe.Tier) []*family {
	fs := []*family{singles(3), idFamily(), pairs(tier), depth4(), wide(), idSweep(), denseIDs(), shells(), goInts()}
	if tier == universe.Thorough {
		fs = append(fs, triples())
	}
	return fs
}

type flatFamily struct {
	items []*ref.Struct
	fam   []string
}

func flatten(fs []*family) *flatFamily {
	r := &flatFamily{}
	for _, f := range fs {
		for _, it := range f.items {
			r.items = append(r.items, it)
			r.fam = append(r.fam, f.name)
		}
	}
	return r
}

var (
	valMu    sync.Mutex
	valCache = map[*ref.Struct][]*ref.Val{}
)

// valuesOf returns the enumerated values of a struct spec.
func valuesOf(s *ref.Struct, tier universe.Tier) []*ref.Val {
	valMu.Lock()
	defer valMu.Unlock()
	if v, ok := valCache[s]; ok {
		return v
	}
	max := 600
	if tier == universe.Thorough {
		max = 3000
	}
	v := universe.StructValues(s, tier, max)
	if s.Unknown {
		// retained unknown-field bytes: every value also with a non-empty holder
		n := len(v)
		for i := 0; i < n; i++ {
			c := v[i].Clone()
			c.Unk = unknownSamples[i%len(unknownSamples)]
			v = append(v, c)
		}
	}
	limit := 64
	if tier == universe.Thorough {
		limit = 12 // thorough values hold 70 000-element containers: keep fewer types' values alive
	}
	if len(valCache) > limit {
		for k := range valCache {
			delete(valCache, k)
		}
	}
	valCache[s] = v
	return v
}

// well-formed unknown-field byte strings (header + value), one or several fields
var unknownSamples = [][]byte{
	{ref.WI16, 0x7f, 0xf0, 0x12, 0x34},
	{ref.WString, 0x40, 0x00, 0, 0, 0, 3, 'a', 'b', 'c', ref.WBool, 0x40, 0x01, 1},
	{ref.WList, 0x50, 0x00, ref.WStruct, 0, 0, 0, 2, ref.WByte, 0, 1, 9, 0, 0, ref.WMap, 0x50, 0x01, ref.WI32, ref.WString, 0, 0, 0, 1, 0, 0, 0, 5, 0, 0, 0, 1, 'z'},
}
