package checks

import (
	"bytes"
	"fmt"

	"github.com/cloudwego/frugal/zverif/explore"
	"github.com/cloudwego/frugal/zverif/harness"
	"github.com/cloudwego/frugal/zverif/hooks"
	"github.com/cloudwego/frugal/zverif/ref"
	"github.com/cloudwego/frugal/zverif/universe"
	"github.com/cloudwego/frugal/zverif/xval"
)

// codecCase is one (type, value) point of the shared C01/C02/C04/C16 space.
type codecCase struct {
	ti, vi int
	fam    string
	s      *ref.Struct
	v      *ref.Val
}

// pickCodecCase asks the explorer for a type and a value of it.
func pickCodecCase(c *explore.C, ff *flatFamily, tier universe.Tier) *codecCase {
	ti := c.Choose(len(ff.items), explore.Data, "type")
	s := ff.items[ti]
	vals := valuesOf(s, tier)
	vi := c.Choose(len(vals), explore.Data, "value")
	harness.Cur.Crumb(c.Choices())
	universe.MapHoles = vi%2 == 1 // every other value: maps that have had entries deleted
	return &codecCase{ti: ti, vi: vi, fam: ff.fam[ti], s: s, v: vals[vi]}
}

// enumOutOfRange reports enum values outside int32 anywhere in v (excluded by C01).
func shapeClass(cc *codecCase) string {
	f := cc.s.Fields[0]
	return cc.fam + "/" + f.Type.Kind.String()
}

func init() {
	harness.Register(&harness.Check{
		ID:          "C01",
		Level:       "model_checking",
		Explanation: "Bounded exhaustive enumeration (engine E1) of struct types assembled at run time x values; every execution runs the real EncodeObject and DecodeObject and compares the result with the reference decode of the reference encoding.",
		Assumptions: []string{"go1.23.5 toolchain", "the reference model (zv/ref) is the oracle; it is cross-validated against Apache Thrift and gopkg readers by the C02 check", "values outside the stated alphabets are not covered"},
		Phases: func(tier universe.Tier) []*harness.Phase {
			ff := flatten(codecFamilies(tier))
			return []*harness.Phase{{
				Name: "roundtrip", Weight: 8,
				Rule: "every struct type of the families single-field over T3 x shells, boundary ids, two-field (thorough: three-field) x every value of the per-type alphabet (full product or <=2 deviations from the base value); an outcome is distinct by (type index, canonical encoded bytes); all are non-trivial (each is a different program/input pair)",
				Body: func(c *explore.C) { c01Body(c, ff, tier) },
			}}
		},
	})
}

func c01Body(c *explore.C, ff *flatFamily, tier universe.Tier) {
	cc := pickCodecCase(c, ff, tier)
	s, v := cc.s, cc.v
	hooks.Reset()
	src := universe.New(s, v)
	want := ref.Encode(s, v)
	w := NewWindow(len(want)+64, 0)
	buf := w.Buf()
	r := Enc(buf, src.Interface())
	if r.Panic != nil || r.Err != nil {
		c.Fail(fmt.Sprintf("EncodeObject failed on an accepted type/value: %v", r), mkCase("C01", "encode-failed", s, v, nil, r.String()))
		return
	}
	enc := buf[:r.N]
	dst := universe.New(s, nil)
	d := Dec(enc, dst.Interface())
	if ref.NilRequired(s, v) {
		// outside the round-trip domain: a nil pointer to a struct with required fields is written as an
		// empty struct, which C09 obliges the decoder to reject; only that consequence is checked here
		if d.Panic != nil || d.Err == nil {
			c.Fail(fmt.Sprintf("a message lacking required fields (nil pointer to a struct declaring them) is not rejected: %v", d), mkCase("C01", "nil-required-accepted", s, v, enc, d.String()))
			return
		}
		harness.Cur.Outcome(harness.Hash64([]byte{byte(cc.ti), byte(cc.ti >> 8)}, enc), "nil-required/rejected")
		return
	}
	if d.Panic != nil || d.Err != nil {
		c.Fail(fmt.Sprintf("DecodeObject failed on frugal's own encoding: %v", d), mkCase("C01", "decode-failed", s, v, enc, d.String()))
		return
	}
	if d.N != r.N {
		c.Fail(fmt.Sprintf("DecodeObject consumed %d bytes, encoded length is %d", d.N, r.N), mkCase("C01", "consumed-mismatch", s, v, enc, nil))
		return
	}
	got := universe.ReadStruct(s, dst.Elem())
	exp := ref.Decode(s, want, nil, ref.DecOpts{})
	if !exp.OK {
		panic(fmt.Sprintf("harness error: reference decoder rejects the reference encoding: %v at %d for %s value %s", exp.Err, exp.ErrOff, s, v.Short()))
	}
	gc, ec := got.Canon(), exp.V.Canon()
	if gc != ec {
		c.Fail("decoded value differs from the original (after the documented normalisations)",
			mkCase("C01", "value-mismatch", s, v, enc, map[string]string{"got": got.Short(), "want": exp.V.Short()}))
		return
	}
	harness.Cur.Outcome(harness.Hash64([]byte{byte(cc.ti), byte(cc.ti >> 8), byte(cc.ti >> 16)}, []byte(gc)), shapeClass(cc))
	harness.Cur.Sample(func() interface{} {
		return map[string]string{"type": s.String(), "value": v.Short(), "encoded": hx(enc)}
	})
}

func init() {
	harness.Register(&harness.Check{
		ID:          "C02",
		Level:       "model_checking",
		Explanation: "Bounded exhaustive enumeration (E1) of types x values; every execution runs the real EncodeObject and checks the bytes with a strict schema-less wire parser, against the reference encoder (canonical form), and by parsing them with Apache Thrift TBinaryProtocol and gopkg thrift.Binary. The reference encoder itself is cross-validated the same way on every case.",
		Assumptions: []string{"go1.23.5 toolchain", "Apache Thrift v0.13.0 and cloudwego/gopkg v0.2.0 readers are independent implementations of the Binary Protocol"},
		Phases: func(tier universe.Tier) []*harness.Phase {
			ff := flatten(codecFamilies(tier))
			return []*harness.Phase{{
				Name: "wire", Weight: 8,
				Rule: "same type x value space as C01 (complete 9x14 map matrix, all list/set element kinds, containers of containers); distinct by (type index, canonical bytes)",
				Body: func(c *explore.C) { c02Body(c, ff, tier) },
			}}
		},
	})
	harness.Register(&harness.Check{
		ID:          "C04",
		Level:       "model_checking",
		Explanation: "Bounded exhaustive enumeration (E1) of types x values x buffer lengths; EncodedSize by pointer and by value, EncodeObject into windows of every length 0..size (all for size<=64) with sentinel bytes before, in spare capacity and beyond capacity.",
		Assumptions: []string{"go1.23.5 toolchain", "reference encoder length is the expected size"},
		Phases: func(tier universe.Tier) []*harness.Phase {
			ff := flatten(codecFamilies(tier))
			return []*harness.Phase{{
				Name: "size-buffer", Weight: 8,
				Rule: "C01 type x value space, each value passed as *T and T, x buffer lengths {0..size} (size<=64) or {0,1,size-1,powers of two} plus {size,size+1,size+7}; distinct by (type index, canonical bytes)",
				Body: func(c *explore.C) { c04Body(c, ff, tier) },
			}}
		},
	})
	harness.Register(&harness.Check{
		ID:          "C16",
		Level:       "model_checking",
		Explanation: "Bounded exhaustive enumeration (E1) of types x values; deep raw-memory snapshots (struct memory incl. padding, slice backing arrays up to capacity, strings, map contents) of the value before and after EncodedSize/EncodeObject by pointer and by value; sentinel windows around the buffer; input buffer compared after DecodeObject.",
		Assumptions: []string{"go1.23.5 toolchain"},
		Phases: func(tier universe.Tier) []*harness.Phase {
			ff := flatten(append(codecFamilies(tier), nocopyFamily()))
			return []*harness.Phase{{
				Name: "side-effects", Weight: 8,
				Rule: "C01 type x value space plus nocopy string/binary types; values built with spare slice capacity holding live sentinel elements; distinct by (type index, canonical bytes)",
				Body: func(c *explore.C) { c16Body(c, ff, tier) },
			}, {
				Name: "large-retained-bytes",
				Rule: "a value retaining 1 MiB - 64, 1 MiB + 64 and 3 MiB of unknown-field bytes, at top level and in a nested struct: the same side-effect oracle",
				Body: c16Large,
			}}
		},
	})
}

func tiKey(ti int) []byte { return []byte{byte(ti), byte(ti >> 8), byte(ti >> 16)} }

func c02Body(c *explore.C, ff *flatFamily, tier universe.Tier) {
	cc := pickCodecCase(c, ff, tier)
	s, v := cc.s, cc.v
	hooks.Reset()
	src := universe.New(s, v)
	want := ref.Encode(s, v)
	exp := ref.Decode(s, want, nil, ref.DecOpts{IgnoreRequired: ref.NilRequired(s, v)})
	if !exp.OK || exp.N != len(want) {
		panic(fmt.Sprintf("harness error: reference decoder rejects the reference encoding (%v) for %s", exp.Err, s))
	}
	// the foreign readers have no notion of the unknown-fields holder: compare without it
	expCanon := stripUnk(exp.V).Canon()
	// cross-validate the reference encoder with both independent readers
	for name, rd := range readers {
		xv, n, err := rd(s, want)
		if err != nil || n != len(want) || xv.Canon() != expCanon {
			panic(fmt.Sprintf("harness error: %s reader disagrees with the reference encoder: err=%v n=%d/%d type=%s value=%s", name, err, n, len(want), s, v.Short()))
		}
	}
	if n, err := xval.GopkgSkipLen(want); err != nil || n != len(want) {
		panic(fmt.Sprintf("harness error: gopkg Skip disagrees with the reference encoder on the length: %d vs %d (%v)", n, len(want), err))
	}
	w := NewWindow(len(want)+64, 0)
	buf := w.Buf()
	r := Enc(buf, src.Interface())
	if r.Panic != nil || r.Err != nil {
		c.Fail(fmt.Sprintf("EncodeObject failed on an accepted type/value: %v", r), mkCase("C02", "encode-failed", s, v, nil, r.String()))
		return
	}
	enc := buf[:r.N]
	tree, end, err := ref.ParseStruct(enc)
	if err != nil {
		c.Fail("encoder output is not well-formed Thrift Binary: "+err.Error(), mkCase("C02", "malformed-output", s, v, enc, nil))
		return
	}
	if end != r.N {
		c.Fail(fmt.Sprintf("encoder output has %d bytes after the top-level STOP", r.N-end), mkCase("C02", "trailing-output", s, v, enc, nil))
		return
	}
	gotCanon := tree.Bytes(true)
	wantCanon, _ := ref.Canonical(want)
	if !bytes.Equal(gotCanon, wantCanon) {
		c.Fail("encoder output differs from the reference encoding (up to map-entry order)",
			mkCase("C02", "bytes-mismatch", s, v, enc, map[string]string{"reference": hx(want)}))
		return
	}
	for name, rd := range readers {
		xv, n, err := rd(s, enc)
		if err != nil || n != r.N {
			c.Fail(fmt.Sprintf("%s cannot parse the encoder output: err=%v consumed=%d of %d", name, err, n, r.N), mkCase("C02", "foreign-reader-rejects", s, v, enc, nil))
			return
		}
		if xv.Canon() != expCanon {
			c.Fail(name+" parses the encoder output to a different value", mkCase("C02", "foreign-reader-value", s, v, enc, map[string]string{"got": xv.Short(), "want": exp.V.Short()}))
			return
		}
	}
	harness.Cur.Outcome(harness.Hash64(tiKey(cc.ti), gotCanon), shapeClass(cc))
	harness.Cur.Sample(func() interface{} {
		return map[string]string{"type": s.String(), "value": v.Short(), "encoded": hx(enc)}
	})
}

var readers = map[string]func(*ref.Struct, []byte) (*ref.Val, int, error){"Apache Thrift TBinaryProtocol": xval.Apache, "gopkg thrift.Binary": xval.Gopkg}

func bufLens(size int) []int {
	var ls []int
	if size <= 64 {
		for l := 0; l <= size; l++ {
			ls = append(ls, l)
		}
	} else {
		ls = append(ls, 0, 1)
		for p := 2; p < size; p *= 2 {
			ls = append(ls, p)
		}
		ls = append(ls, size-1, size)
	}
	return append(ls, size+1, size+7)
}

func c04Body(c *explore.C, ff *flatFamily, tier universe.Tier) {
	cc := pickCodecCase(c, ff, tier)
	s, v := cc.s, cc.v
	hooks.Reset()
	src := universe.New(s, v)
	want := ref.Encode(s, v)
	wantCanon, _ := ref.Canonical(want)
	size := len(want)
	args := []struct {
		name string
		arg  interface{}
	}{{"pointer", src.Interface()}, {"value", src.Elem().Interface()}}
	for _, a := range args {
		r := Size(a.arg)
		if r.Panic != nil {
			c.Fail(fmt.Sprintf("EncodedSize(%s) panics on an accepted type/value: %v", a.name, r.Panic), mkCase("C04", "size-panic", s, v, nil, a.name))
			return
		}
		if r.N != size {
			c.Fail(fmt.Sprintf("EncodedSize(%s)=%d, the encoding has %d bytes", a.name, r.N, size), mkCase("C04", "size-mismatch", s, v, nil, a.name))
			return
		}
	}
	for ai, a := range args {
		for _, l := range bufLens(size) {
			if ai == 1 && l != size && l != size-1 && l != 0 {
				continue // by value: exact, one short, empty
			}
			if l < 0 {
				continue
			}
			w := NewWindow(l, size+16)
			buf := w.Buf()
			r := Enc(buf, a.arg)
			if r.Panic != nil {
				c.Fail(fmt.Sprintf("EncodeObject(%s, len(buf)=%d of %d needed) panics: %v", a.name, l, size, r.Panic), mkCase("C04", "encode-panic", s, v, nil, l))
				return
			}
			if l >= size {
				if r.Err != nil || r.N != size {
					c.Fail(fmt.Sprintf("EncodeObject(%s) with len(buf)=%d >= size %d: %v", a.name, l, size, r), mkCase("C04", "sufficient-buffer-rejected", s, v, nil, l))
					return
				}
				got, err := ref.Canonical(buf[:r.N])
				if err != nil || !bytes.Equal(got, wantCanon) {
					c.Fail(fmt.Sprintf("EncodeObject(%s) wrote a different message into a buffer of length %d", a.name, l), mkCase("C04", "bytes-mismatch", s, v, buf[:r.N], l))
					return
				}
				if off, bad := w.Dirty(r.N); bad {
					c.Fail(fmt.Sprintf("EncodeObject(%s) wrote outside buf[:n]: offset %d (n=%d len=%d)", a.name, off, r.N, l), mkCase("C04", "write-outside", s, v, nil, l))
					return
				}
			} else {
				if r.Err == nil {
					c.Fail(fmt.Sprintf("EncodeObject(%s) with len(buf)=%d < size %d returned success n=%d (truncated message)", a.name, l, size, r.N), mkCase("C04", "short-buffer-accepted", s, v, nil, l))
					return
				}
				if off, bad := w.Dirty(l); bad {
					c.Fail(fmt.Sprintf("EncodeObject(%s) with a short buffer wrote past the buffer: offset %d, len(buf)=%d", a.name, off, l), mkCase("C04", "write-past-buffer", s, v, nil, l))
					return
				}
			}
			harness.Cur.Count("buffer_lengths_tried", 1)
		}
	}
	harness.Cur.Outcome(harness.Hash64(tiKey(cc.ti), wantCanon), shapeClass(cc))
	harness.Cur.Sample(func() interface{} {
		return map[string]interface{}{"type": s.String(), "value": v.Short(), "size": size, "buffer_lengths": bufLens(size)}
	})
}

// nocopyFamily: string/binary fields with the nocopy option in every shell.
func nocopyFamily() *family {
	return cached("nocopy", func() *family {
		f := &family{name: "nocopy"}
		for _, k := range []ref.Kind{ref.KString, ref.KBinary} {
			t := universe.Sc(k)
			for _, sh := range universe.Shells(t) {
				s := universe.One(t, sh, 1)
				s.Fields[0].NoCopy = true
				s.Fields = append(s.Fields, &ref.Field{ID: 2, Req: ref.ReqDefault, Type: universe.Sc(ref.KString)})
				f.items = append(f.items, s)
			}
		}
		return f
	})
}

func c16Body(c *explore.C, ff *flatFamily, tier universe.Tier) {
	c16Run(c, pickCodecCase(c, ff, tier))
}

// c16Large: values whose retained unknown-field bytes are around and beyond 1 MiB (a proxy forwarding a
// payload it has no field for), at top level and in a nested struct: size thresholds in clean-up code.
func c16Large(c *explore.C) {
	sizes := []int{1<<20 - 64, 1<<20 + 64, 3 << 20}
	n := sizes[c.Choose(len(sizes), explore.Data, "retained-bytes")]
	nested := c.Bool(explore.Data, "nested")
	harness.Cur.Crumb(c.Choices())
	unk := make([]byte, 0, n+16)
	unk = append(unk, ref.WString, 0x70, 0x01, byte(n>>24), byte(n>>16), byte(n>>8), byte(n))
	for i := 0; i < n; i++ {
		unk = append(unk, byte('a'+i%23))
	}
	leaf := universe.LeafHolder()
	lv := ref.ZeroStruct(leaf)
	lv.F[0] = ref.Int(ref.KI16, 5)
	s := &ref.Struct{Unknown: true, Fields: []*ref.Field{{ID: 1, Req: ref.ReqDefault, Type: universe.Sc(ref.KI32)}, {ID: 2, Req: ref.ReqOptional, Type: universe.StPtr(leaf)}}}
	v := &ref.Val{K: ref.KStruct, F: []*ref.Val{ref.Int(ref.KI32, 7), lv}}
	if nested {
		lv.Unk = unk
	} else {
		v.Unk = unk
	}
	c16Run(c, &codecCase{ti: 1 << 20, vi: n, fam: "large-retained-bytes", s: s, v: v})
}

func c16Run(c *explore.C, cc *codecCase) {
	s, v := cc.s, cc.v
	hooks.Reset()
	src := universe.NewSpare(s, v)
	want := ref.Encode(s, v)
	size := len(want)
	before := Snapshot(src)
	check := func(step string) bool {
		after := Snapshot(src)
		if d := before.Diff(after); d != "" {
			c.Fail(step+" modified the value it was given: "+d, mkCase("C16", "value-modified", s, v, nil, step))
			return false
		}
		return true
	}
	if r := Size(src.Interface()); r.Panic != nil {
		c.Fail(fmt.Sprintf("EncodedSize panics: %v", r.Panic), mkCase("C16", "size-panic", s, v, nil, nil))
		return
	}
	if !check("EncodedSize(pointer)") {
		return
	}
	Size(src.Elem().Interface())
	if !check("EncodedSize(value)") {
		return
	}
	var first []byte
	for i, a := range []interface{}{src.Interface(), src.Elem().Interface(), src.Interface()} {
		step := []string{"EncodeObject(pointer)", "EncodeObject(value)", "EncodeObject(pointer) again"}[i]
		w := NewWindow(size+40, 24) // larger than needed, with spare capacity
		buf := w.Buf()
		r := Enc(buf, a)
		if r.Panic != nil || r.Err != nil {
			c.Fail(fmt.Sprintf("%s failed: %v", step, r), mkCase("C16", "encode-failed", s, v, nil, step))
			return
		}
		if off, bad := w.Dirty(r.N); bad {
			c.Fail(fmt.Sprintf("%s wrote outside buf[:n]: offset %d, n=%d, len(buf)=%d", step, off, r.N, len(buf)), mkCase("C16", "write-outside", s, v, nil, step))
			return
		}
		if !check(step) {
			return
		}
		cn, err := ref.Canonical(buf[:r.N])
		if err != nil {
			c.Fail(step+" produced malformed output: "+err.Error(), mkCase("C16", "malformed-output", s, v, buf[:r.N], step))
			return
		}
		if first == nil {
			first = cn
		} else if !bytes.Equal(first, cn) {
			c.Fail(step+": encoding the same unmodified value again yields different bytes (beyond map-entry order)", mkCase("C16", "not-repeatable", s, v, buf[:r.N], step))
			return
		}
	}
	// decoding never modifies the input
	in := append([]byte{}, want...)
	in = append(in, 0xEE, 0xEE) // trailing bytes
	keep := append([]byte{}, in...)
	dst := universe.New(s, nil)
	d := Dec(in, dst.Interface())
	if (d.Panic != nil || d.Err != nil) && !(d.Panic == nil && ref.NilRequired(s, v)) { // a rejected message (see C01) must be left unmodified too
		c.Fail(fmt.Sprintf("DecodeObject failed on the reference encoding: %v", d), mkCase("C16", "decode-failed", s, v, want, nil))
		return
	}
	if !bytes.Equal(in, keep) {
		c.Fail("DecodeObject modified its input buffer", mkCase("C16", "input-modified", s, v, want, hx(in)))
		return
	}
	harness.Cur.Outcome(harness.Hash64(tiKey(cc.ti), first), shapeClass(cc))
	harness.Cur.Sample(func() interface{} {
		return map[string]interface{}{"type": s.String(), "value": v.Short(), "snapshot_blocks": len(before.blocks)}
	})
}

// stripUnk returns a copy of v without any retained unknown-field bytes.
func stripUnk(v *ref.Val) *ref.Val {
	c := v.Clone()
	var rec func(x *ref.Val)
	rec = func(x *ref.Val) {
		if x == nil {
			return
		}
		x.Unk = nil
		for _, e := range x.L {
			rec(e)
		}
		for _, e := range x.M {
			rec(e[0])
			rec(e[1])
		}
		for _, e := range x.F {
			rec(e)
		}
	}
	rec(c)
	return c
}

// ---- C02 phase 2: types sharing one Go type but differing in list-vs-set somewhere ----

// listSetNodes returns the list/set nodes of t in pre-order.
func listSetNodes(t *ref.Type) []*ref.Type {
	if t == nil {
		return nil
	}
	var r []*ref.Type
	if t.Kind == ref.KList || t.Kind == ref.KSet || t.Kind == ref.KEnum {
		r = append(r, t)
	}
	r = append(r, listSetNodes(t.Key)...)
	return append(r, listSetNodes(t.Elem)...)
}

// flipNode deep-copies t with its k-th list/set node (pre-order) flipped to the other kind.
func flipNode(t *ref.Type, k *int) *ref.Type {
	if t == nil {
		return nil
	}
	c := *t
	if t.Kind == ref.KList || t.Kind == ref.KSet || t.Kind == ref.KEnum {
		if *k == 0 {
			switch t.Kind {
			case ref.KList:
				c.Kind = ref.KSet
			case ref.KSet:
				c.Kind = ref.KList
			case ref.KEnum: // the same named Go type annotated as plain i64
				c.Kind, c.Named = ref.KI64, true
			}
		}
		*k--
	}
	c.Key = flipNode(t.Key, k)
	c.Elem = flipNode(t.Elem, k)
	return &c
}

func siblingFamily() *family {
	return cached("siblings", func() *family {
		f := &family{name: "list-set-siblings"}
		for _, t := range append(universe.T(3), depth4Types()...) {
			if len(listSetNodes(t)) > 0 {
				f.items = append(f.items, universe.One(t, universe.FieldShell{Req: ref.ReqDefault}, 1))
			}
		}
		return f
	})
}

func init() {
	ck := harness.Lookup("C02")
	old := ck.Phases
	ck.Phases = func(tier universe.Tier) []*harness.Phase {
		return append(old(tier), &harness.Phase{
			Name: "shared-go-type",
			Rule: "every T3 type and 27 depth-4 types with a list/set/enum node x each such node flipped list<->set or enum<->i64-on-the-same-named-type (same Go type, different wire schema) x both registration orders x 3 values: both types used in one process must each encode per their own tags",
			Body: func(c *explore.C) { c02Siblings(c, tier) },
		})
	}
}

func c02Siblings(c *explore.C, tier universe.Tier) {
	fam := siblingFamily()
	ti := c.Choose(len(fam.items), explore.Data, "type")
	s1 := fam.items[ti]
	nodes := listSetNodes(s1.Fields[0].Type)
	k := c.Choose(len(nodes), explore.Data, "flipped-node")
	swap := c.Bool(explore.Data, "sibling-first")
	vals := valuesOf(s1, tier)
	vi := c.Choose(3, explore.Data, "value")
	harness.Cur.Crumb(c.Choices())
	hooks.Reset()
	kk := k
	s2 := universe.One(flipNode(s1.Fields[0].Type, &kk), universe.FieldShell{Req: ref.ReqDefault}, 1)
	// pick an informative value: the last ones of the alphabet are the populated containers
	v := vals[len(vals)-1-vi%len(vals)]
	order := []*ref.Struct{s1, s2}
	if swap {
		order = []*ref.Struct{s2, s1}
	}
	// the value tree fits both schemas (only list/set kinds differ): retag a copy per schema
	for round := 0; round < 2; round++ {
		for _, s := range order {
			vv := retagVal(s.Fields[0].Type, v.F[0])
			sv := &ref.Val{K: ref.KStruct, F: []*ref.Val{vv}}
			want := ref.Encode(s, sv)
			buf := make([]byte, len(want)+16)
			r := Enc(buf, universe.New(s, sv).Interface())
			if r.Panic != nil || r.Err != nil {
				c.Fail(fmt.Sprintf("EncodeObject failed: %v", r), mkCase("C02", "encode-failed", s, sv, nil, nil))
				return
			}
			gc, err := ref.Canonical(buf[:r.N])
			wc, _ := ref.Canonical(want)
			if err != nil || !bytes.Equal(gc, wc) {
				c.Fail(fmt.Sprintf("after another type with the same Go type (%s) was used, the encoding no longer follows this type's own tags", universe.StructGoType(s).Field(0).Type),
					mkCase("C02", "bytes-mismatch-shared-go-type", s, sv, buf[:r.N], map[string]interface{}{"reference": hx(want), "other_type": order[0].String() + " | " + order[1].String()}))
				return
			}
		}
	}
	harness.Cur.Evals(4)
	harness.Cur.Outcome(harness.Hash64(tiKey(ti), []byte{byte(k), byte(vi)}, []byte(fmt.Sprint(swap))), "siblings")
	harness.Cur.Sample(func() interface{} { return map[string]string{"type": s1.String(), "sibling": s2.String()} })
}

// retagVal copies v, setting container kinds to those of t.
func retagVal(t *ref.Type, v *ref.Val) *ref.Val {
	if v == nil {
		return nil
	}
	c := *v
	c.K = t.Kind
	if v.L != nil {
		c.L = make([]*ref.Val, len(v.L))
		for i, e := range v.L {
			c.L[i] = retagVal(t.Elem, e)
		}
	}
	if v.M != nil {
		c.M = make([][2]*ref.Val, len(v.M))
		for i, e := range v.M {
			c.M[i] = [2]*ref.Val{retagVal(t.Key, e[0]), retagVal(t.Elem, e[1])}
		}
	}
	if t.Kind == ref.KStruct && v.F != nil {
		c.F = make([]*ref.Val, len(v.F))
		for i, e := range v.F {
			c.F[i] = retagVal(t.St.Fields[i].Type, e)
		}
	}
	return &c
}

// ---- C01 phase 2: static types (default initialisers, recursion) ----

func init() {
	ck := harness.Lookup("C01")
	old := ck.Phases
	ck.Phases = func(tier universe.Tier) []*harness.Phase {
		return append(old(tier), &harness.Phase{
			Name: "static-types",
			Rule: "types reflect.StructOf cannot build: (a) structs with default initialisers nested in 6-7 positions, element values = every subset of 4 fields away from the declared default, destination default-initialised by the caller at top level; (b) the recursive type R nested along every word of length <= 3 (thorough 4) over its six nesting steps with 1-2 elements per container; distinct by encoded bytes",
			Body: func(c *explore.C) { c01Static(c, tier) },
		})
	}
}

func c01RoundTrip(c *explore.C, s *ref.Struct, v, prior *ref.Val, what string) bool {
	src := universe.New(s, v)
	want := ref.Encode(s, v)
	buf := make([]byte, len(want)+32)
	r := Enc(buf, src.Interface())
	if r.Panic != nil || r.Err != nil {
		c.Fail(fmt.Sprintf("EncodeObject failed (%s): %v", what, r), mkCase("C01", "encode-failed", s, v, nil, what))
		return false
	}
	dst := universe.New(s, prior)
	d := Dec(buf[:r.N], dst.Interface())
	if d.Panic != nil || d.Err != nil || d.N != r.N {
		c.Fail(fmt.Sprintf("DecodeObject of frugal's own encoding (%s): %v, encoded length %d", what, d, r.N), mkCase("C01", "decode-failed", s, v, buf[:r.N], what))
		return false
	}
	exp := ref.Decode(s, want, prior, ref.DecOpts{})
	if !exp.OK {
		panic("harness error: reference rejects its own encoding: " + what)
	}
	if g := universe.ReadStruct(s, dst.Elem()); g.Canon() != exp.V.Canon() {
		c.Fail("decoded value differs from the original after the documented normalisations ("+what+")", mkCase("C01", "value-mismatch", s, v, buf[:r.N], map[string]string{"got": g.Short(), "want": exp.V.Short()}))
		return false
	}
	harness.Cur.Outcome(harness.Hash64(want, []byte(what)), what[:1])
	return true
}

func c01Static(c *explore.C, tier universe.Tier) {
	kind := c.Choose(3, explore.Data, "static-family")
	switch kind {
	case 0: // all-optional defaults
		pos := c.Choose(6, explore.Data, "position")
		mask := c.Choose(16, explore.Data, "fields-away-from-default")
		two := c.Bool(explore.Data, "second-element-at-defaults")
		harness.Cur.Crumb(c.Choices())
		hooks.Reset()
		d, o := universe.DfltOptSpecs()
		mkv := func(m int) *ref.Val {
			v := ref.InitStruct(d)
			if m&1 != 0 {
				v.F[0] = ref.Int(ref.KI32, -9)
			}
			if m&2 != 0 {
				v.F[1] = ref.Str("other")
			}
			if m&4 != 0 {
				v.F[2] = ref.Double(0)
			}
			if m&8 != 0 {
				v.F[3] = ref.List(ref.KList, ref.Int(ref.KI32, 4), ref.Int(ref.KI32, 5))
			}
			return v
		}
		el := []*ref.Val{mkv(mask)}
		if two {
			el = append(el, mkv(0))
		}
		ov := ref.ZeroStruct(o)
		ov.F[1] = mkv(0)
		switch pos {
		case 0:
			ov.F[0] = el[0]
		case 1:
			ov.F[1] = el[0]
		case 2:
			ov.F[2] = ref.List(ref.KList, el...)
		case 3:
			ov.F[3] = ref.List(ref.KSet, el...)
		case 4, 5:
			m := &ref.Val{K: ref.KMap}
			for i, e := range el {
				k := ref.Int(ref.KI32, int64(i))
				if pos == 5 {
					k = ref.Str(fmt.Sprint("k", i))
				}
				m.M = append(m.M, [2]*ref.Val{k, e})
			}
			ov.F[pos] = m
		}
		c01RoundTrip(c, o, ov, nil, fmt.Sprintf("a: DfltOptOuter position %d mask %04b", pos, mask))
	case 1: // the default-table type at top level (destination default-initialised by the caller) and nested
		k := c.Choose(13, explore.Data, "field")
		alt := c.Choose(3, explore.Data, "value")
		nested := c.Bool(explore.Data, "nested")
		harness.Cur.Crumb(c.Choices())
		universe.DfltTable = universe.Dflt{}
		proto := universe.DfltSpec()
		table := c10BaseTable(proto)
		universe.SetDfltTable(proto, table)
		hooks.Reset()
		spec := universe.DfltSpec()
		v := table.Clone()
		al := universe.Alphabet(spec.Fields[k].Type, universe.Quick, 1)
		switch alt {
		case 1:
			v.F[k] = al[0].Clone()
		case 2:
			v.F[k] = al[len(al)-1].Clone()
		}
		if !nested {
			c01RoundTrip(c, spec, v, ref.InitStruct(spec), fmt.Sprintf("b: Dflt top-level field %s alt %d", spec.Fields[k].Name, alt))
			return
		}
		outer := universe.DfltOuterSpec(spec)
		ov := ref.ZeroStruct(outer)
		ov.F[1] = table.Clone()
		ov.F[2] = ref.List(ref.KList, v, table.Clone())
		ov.F[5] = &ref.Val{K: ref.KMap, M: [][2]*ref.Val{{ref.Int(ref.KI32, 3), v.Clone()}}}
		c01RoundTrip(c, outer, ov, nil, fmt.Sprintf("b: DfltOuter nested field %s alt %d", spec.Fields[k].Name, alt))
	case 2: // recursion
		maxLen := 3
		if tier == universe.Thorough {
			maxLen = 4
		}
		n := 1 + c.Choose(maxLen, explore.Data, "depth")
		word := make([]int, n)
		for i := range word {
			word[i] = c.Choose(6, explore.Data, "step")
		}
		wide := c.Bool(explore.Data, "two-elements")
		harness.Cur.Crumb(c.Choices())
		hooks.Reset()
		rs := universe.RSpec()
		var build func(i int) *ref.Val
		build = func(i int) *ref.Val {
			v := ref.ZeroStruct(rs)
			v.F[6] = ref.Int(ref.KI32, int64(100+i))
			if i == len(word) {
				return v
			}
			kids := []*ref.Val{build(i + 1)}
			if wide {
				leaf := ref.ZeroStruct(rs)
				leaf.F[6] = ref.Int(ref.KI32, int64(-i-1))
				kids = append(kids, leaf, nil) // a sibling leaf and a nil pointer element
			}
			switch word[i] {
			case 0:
				v.F[0] = kids[0]
			case 1:
				v.F[1] = ref.List(ref.KList, kids...)
			case 2:
				v.F[2] = ref.List(ref.KSet, kids...)
			case 3:
				m := &ref.Val{K: ref.KMap}
				for j, k := range kids {
					m.M = append(m.M, [2]*ref.Val{ref.Int(ref.KI32, int64(j)), k})
				}
				v.F[3] = m
			case 4:
				m := &ref.Val{K: ref.KMap}
				for j, k := range kids {
					if k == nil {
						continue // a nil pointer key is one key only; keep the keys distinct
					}
					m.M = append(m.M, [2]*ref.Val{k, ref.Int(ref.KI32, int64(j))})
				}
				v.F[4] = m
			case 5:
				v.F[5] = ref.List(ref.KList, ref.List(ref.KList, kids...), &ref.Val{K: ref.KList, L: []*ref.Val{}})
			}
			return v
		}
		c01RoundTrip(c, rs, build(0), nil, fmt.Sprintf("c: R word %v wide=%v", word, wide))
	}
}

// ---- C01 phase 3: very large containers and strings ----

func init() {
	ck := harness.Lookup("C01")
	old := ck.Phases
	ck.Phases = func(tier universe.Tier) []*harness.Phase {
		return append(old(tier), &harness.Phase{
			Name: "huge",
			Rule: "10 container shapes (pointer / by-value / scalar / string elements, keys and values) x element counts {4097, 65536, 70000} and strings of 70000 and 1<<20 bytes: round trip, size and foreign reader",
			Body: func(c *explore.C) { c01Huge(c, tier) },
		})
	}
}

func c01Huge(c *explore.C, tier universe.Tier) {
	sc := universe.Sc
	lf, lfx := universe.Leaf(), universe.LeafFixed()
	shapes := []*ref.Type{
		universe.ListOf(universe.StPtr(lf)), universe.ListOf(universe.StVal(lfx)), universe.ListOf(sc(ref.KString)), universe.SetOf(sc(ref.KI64)), universe.ListOf(sc(ref.KBool)),
		universe.MapOf(sc(ref.KI32), universe.StPtr(lf)), universe.MapOf(sc(ref.KString), universe.StVal(lfx)), universe.MapOf(universe.StPtr(lfx), sc(ref.KI8)),
		universe.MapOf(sc(ref.KI64), sc(ref.KString)), universe.ListOf(universe.ListOf(sc(ref.KI16))),
	}
	si := c.Choose(len(shapes)+1, explore.Data, "shape")
	ni := c.Choose(3, explore.Data, "count")
	harness.Cur.Crumb(c.Choices())
	hooks.Reset()
	n := []int{4097, 65536, 70000}[ni]
	if tier == universe.Quick {
		n = []int{4097, 9000, 16500}[ni] // quick: beyond 4096 / 8192 / 16384; thorough: beyond 65535 too
	}
	var s *ref.Struct
	var v *ref.Val
	if si == len(shapes) {
		s = mk(fd(1, ref.ReqDefault, sc(ref.KString)), fd(2, ref.ReqDefault, sc(ref.KBinary)))
		l := []int{70000, 1 << 20, 65536}[ni]
		if tier == universe.Quick {
			l = []int{70000, 1 << 18, 65536}[ni]
		}
		b := make([]byte, l)
		for i := range b {
			b[i] = byte(i * 31)
		}
		v = &ref.Val{K: ref.KStruct, F: []*ref.Val{{K: ref.KString, B: b}, {K: ref.KBinary, B: b[:l/2]}}}
	} else {
		t := shapes[si]
		s = mk(fd(1, ref.ReqDefault, t))
		cv := &ref.Val{K: t.Kind}
		for i := 0; i < n; i++ {
			if t.Kind == ref.KMap {
				cv.M = append(cv.M, [2]*ref.Val{universe.Nth(t.Key, i), universe.Nth(t.Elem, i)})
			} else {
				cv.L = append(cv.L, universe.Nth(t.Elem, i))
			}
		}
		v = &ref.Val{K: ref.KStruct, F: []*ref.Val{cv}}
	}
	want := ref.Encode(s, v)
	src := universe.New(s, v)
	if r := Size(src.Interface()); r.Panic != nil || r.N != len(want) {
		c.Fail(fmt.Sprintf("EncodedSize %v, want %d", r, len(want)), mkCase("C01", "size-mismatch", s, nil, nil, fmt.Sprint("elements: ", n)))
		return
	}
	buf := make([]byte, len(want))
	r := Enc(buf, src.Interface())
	if r.Panic != nil || r.Err != nil || r.N != len(want) {
		c.Fail(fmt.Sprintf("EncodeObject of a %d-element value: %v", n, r), mkCase("C01", "encode-failed", s, nil, nil, fmt.Sprint("elements: ", n)))
		return
	}
	dst := universe.New(s, nil)
	d := Dec(buf, dst.Interface())
	if d.Panic != nil || d.Err != nil || d.N != r.N {
		c.Fail(fmt.Sprintf("DecodeObject of frugal's own %d-element encoding: %v", n, d), mkCase("C01", "decode-failed", s, nil, nil, fmt.Sprint("elements: ", n)))
		return
	}
	exp := ref.Decode(s, want, nil, ref.DecOpts{})
	if g := universe.ReadStruct(s, dst.Elem()); g.Canon() != exp.V.Canon() {
		c.Fail(fmt.Sprintf("a %d-element value does not round-trip", n), mkCase("C01", "value-mismatch", s, nil, nil, fmt.Sprint("elements: ", n)))
		return
	}
	harness.Cur.Outcome(harness.Hash64([]byte(s.String()), []byte{byte(ni)}), "huge")
	harness.Cur.Sample(func() interface{} {
		return map[string]interface{}{"type": s.String(), "elements": n, "bytes": len(want)}
	})
}
