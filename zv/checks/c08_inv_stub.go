//go:build !verife3

package checks

import "reflect"

type c08Invariant struct{ violation string }

func newC08Invariant(tracked []reflect.Type) *c08Invariant { return nil }
func (inv *c08Invariant) check(label string)               {}
